#!/bin/sh
# Re-record which obligations discharge on the unchanged tree (run by hand after contract / pack changes,
# never by a registered check).
cd "$(dirname "$0")"
for id in "$@"; do GSV_WRITE_BASELINE=1 bin/gsv check $id | tail -1; done
