#!/bin/sh
# Re-record which obligations discharge on the unchanged tree (run by hand after contract / pack changes,
# never by a registered check).
cd "$(dirname "$0")"
for id in "$@"; do
  line=$(GSV_WRITE_BASELINE=1 bin/gsv check $id | tail -1)
  echo "$line"
  case "$line" in *"violations=0 "*"tool_errors=0 "*) ;; *) echo "  !! $id: NOT CLEAN on this tree - fix before committing this baseline" ;; esac
done
