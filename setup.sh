#!/bin/sh
# Build the verifier from files on disk only (offline).
set -e
cd "$(dirname "$0")/engine"
export PATH=/opt/veriftools/go1.26.8/bin:$PATH GOTOOLCHAIN=local GOFLAGS=-mod=mod GOPROXY=off GOSUMDB=off
mkdir -p ../bin
go build -o ../bin/gsv .
echo "built $(cd .. && pwd)/bin/gsv"
