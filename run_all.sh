#!/bin/sh
# run every registered quick check on the current tree and validate manifest + evidence
cd "$(dirname "$0")"
rc=0
for id in $(python3 -c "import json;print(' '.join(c['property_id'] for c in json.load(open('MANIFEST.json'))['checks']))"); do
  bin/gsv check $id --tier ${1:-quick} | grep -E "VIOLATION|KNOWN|TOOL-ERROR|UNDECIDED|^property=" ; [ $? -ne 0 ] && rc=1
done
python3-vt tools_validate.py
