#!/bin/sh
# regenerate the baseline of every registered pack (after ANY contract / deps / pack edit: the hash covers them all)
cd "$(dirname "$0")"
ids=$(python3 -c "import json;print(' '.join(c['property_id'] for c in json.load(open('MANIFEST.json'))['checks']))")
./regen_baseline.sh $ids 2>&1 | grep -v "violations=0 known=[01] tool_errors=0"
echo "regen_all done"
