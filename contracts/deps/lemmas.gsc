# Lemma library: the only axioms about ghost functions (DESIGN.md §2.6).
# Sum(L, f) = sum of f[s] over the finite set L.

fn Sum(L set[ref], f map[ref]int) int

axiom sum_upd: forall L set[ref], f map[ref]int, s ref, v int ::
    Sum(L, upd(f, s, v)) == Sum(L, f) + ite(L[s], v - f[s], 0)
axiom sum_add: forall L set[ref], f map[ref]int, s ref ::
    Sum(add(L, s), f) == Sum(L, f) + ite(L[s], 0, f[s])
axiom sum_del: forall L set[ref], f map[ref]int, s ref ::
    Sum(del(L, s), f) == Sum(L, f) - ite(L[s], f[s], 0)
axiom sum_empty: forall f map[ref]int :: Sum(emptyset(ref), f) == 0

# a member of a set of non-negative numbers is at most the sum
lemmadef sum_member_le(L set[ref], f map[ref]int, s ref):
    (L[s] && (forall q ref :: L[q] ==> f[q] >= 0)) ==> f[s] <= Sum(L, f)
# a set without members has sum 0
lemmadef sum_none(L set[ref], f map[ref]int):
    (forall q ref :: !L[q]) ==> Sum(L, f) == 0
# sums depend only on the values at members
lemmadef sum_frame(L set[ref], f map[ref]int, g map[ref]int):
    (forall q ref :: L[q] ==> f[q] == g[q]) ==> Sum(L, f) == Sum(L, g)
