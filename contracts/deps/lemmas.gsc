# Lemma library: the only axioms about ghost functions (DESIGN.md §2.6).
# Sum(L, f) = sum of f[s] over the finite set L.

fn Sum(L set[ref], f map[ref]int) int

axiom sum_upd: forall L set[ref], f map[ref]int, s ref, v int ::
    Sum(L, upd(f, s, v)) == Sum(L, f) + ite(L[s], v - f[s], 0)
axiom sum_add: forall L set[ref], f map[ref]int, s ref ::
    Sum(add(L, s), f) == Sum(L, f) + ite(L[s], 0, f[s])
axiom sum_del: forall L set[ref], f map[ref]int, s ref ::
    Sum(del(L, s), f) == Sum(L, f) - ite(L[s], f[s], 0)
axiom sum_empty: forall f map[ref]int :: Sum(emptyset(ref), f) == 0

# a member of a set of non-negative numbers is at most the sum
lemmadef sum_member_le(L set[ref], f map[ref]int, s ref):
    (L[s] && (forall q ref :: L[q] ==> f[q] >= 0)) ==> f[s] <= Sum(L, f)
# a set without members has sum 0
lemmadef sum_none(L set[ref], f map[ref]int):
    (forall q ref :: !L[q]) ==> Sum(L, f) == 0
# sums depend only on the values at members
lemmadef sum_frame(L set[ref], f map[ref]int, g map[ref]int):
    (forall q ref :: L[q] ==> f[q] == g[q]) ==> Sum(L, f) == Sum(L, g)

# Occ(s, l): number of occurrences of l in the sequence s.  Tot(D, vals, l): sum over r in D of Occ(vals[r], l).
fn Occ(s seq[ref], l ref) int
fn Tot(D set[ref], vals map[ref]seq[ref], l ref) int

axiom occ_nonneg: forall s seq[ref], l ref {Occ(s, l)} :: Occ(s, l) >= 0
axiom occ_empty: forall s seq[ref], l ref {Occ(s, l)} :: len(s) == 0 ==> Occ(s, l) == 0
# (guarded by len(s) >= 0: the SMT sort of sequences also contains records with a negative length, for which appending
# gives an EMPTY sequence - without the guard occ_append and occ_empty contradict each other on such a record)
axiom occ_append: forall s seq[ref], x ref, l ref {Occ(append(s, x), l)} :: len(s) >= 0 ==> Occ(append(s, x), l) == Occ(s, l) + ite(x == l, 1, 0)
lemmadef occ_unfold(s seq[ref]):
    forall l ref {Occ(s, l)} :: len(s) > 0 ==> Occ(s, l) == ite(s[0] == l, 1, 0) + Occ(s[1:], l)

axiom tot_add: forall D set[ref], vals map[ref]seq[ref], r ref, l ref {Tot(add(D, r), vals, l)} ::
    Tot(add(D, r), vals, l) == Tot(D, vals, l) + ite(D[r], 0, Occ(vals[r], l))
axiom tot_del: forall D set[ref], vals map[ref]seq[ref], r ref, l ref {Tot(del(D, r), vals, l)} ::
    Tot(del(D, r), vals, l) == Tot(D, vals, l) - ite(D[r], Occ(vals[r], l), 0)
axiom tot_upd: forall D set[ref], vals map[ref]seq[ref], r ref, s seq[ref], l ref {Tot(D, upd(vals, r, s), l)} ::
    Tot(D, upd(vals, r, s), l) == Tot(D, vals, l) + ite(D[r], Occ(s, l) - Occ(vals[r], l), 0)
axiom tot_empty: forall vals map[ref]seq[ref], l ref {Tot(emptyset(ref), vals, l)} :: Tot(emptyset(ref), vals, l) == 0
lemmadef tot_member(D set[ref], vals map[ref]seq[ref], l ref):
    forall r ref {Occ(vals[r], l)} :: D[r] ==> Occ(vals[r], l) <= Tot(D, vals, l)
lemmadef tot_none(D set[ref], vals map[ref]seq[ref]):
    (forall r ref :: !D[r]) ==> (forall l ref {Tot(D, vals, l)} :: Tot(D, vals, l) == 0)

# SeqSum(s, n, f): sum of f over the first n elements of the sequence s.
fn SeqSum(s seq[ref], n int, f map[ref]int) int
axiom seqsum_zero: forall s seq[ref], f map[ref]int {SeqSum(s, 0, f)} :: SeqSum(s, 0, f) == 0
lemmadef seqsum_step(s seq[ref], n int, f map[ref]int):
    n >= 0 ==> SeqSum(s, n + 1, f) == SeqSum(s, n, f) + f[s[n]]
lemmadef seqsum_frame(s seq[ref], n int, f map[ref]int, g map[ref]int):
    (forall i int :: 0 <= i && i < n ==> f[s[i]] == g[s[i]]) ==> SeqSum(s, n, f) == SeqSum(s, n, g)
lemmadef seqsum_nonneg(s seq[ref], n int, f map[ref]int):
    (forall i int :: 0 <= i && i < n ==> f[s[i]] >= 0) ==> SeqSum(s, n, f) >= 0

# SeqSum2(s, n, g, f): sum over the first n elements x of s of f[g[x]] (f read through the pointer field g).
fn SeqSum2(s seq[ref], n int, g map[ref]ref, f map[ref]int) int
axiom seqsum2_zero: forall s seq[ref], g map[ref]ref, f map[ref]int {SeqSum2(s, 0, g, f)} :: SeqSum2(s, 0, g, f) == 0
axiom seqsum2_store: forall s seq[ref], n int, g map[ref]ref, f map[ref]int, x ref, v int {SeqSum2(s, n, g, upd(f, x, v))} ::
    (forall i int :: 0 <= i && i < n ==> g[s[i]] != x) ==> SeqSum2(s, n, g, upd(f, x, v)) == SeqSum2(s, n, g, f)
lemmadef seqsum2_step(s seq[ref], n int, g map[ref]ref, f map[ref]int):
    n >= 0 ==> SeqSum2(s, n + 1, g, f) == SeqSum2(s, n, g, f) + f[g[s[n]]]
