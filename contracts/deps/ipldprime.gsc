# go-ipld-prime: functions small enough to be VERIFIED from the read-only source in the module cache
# (not assumed), and assumed contracts for the rest.
transparent traversal.Progress

# C07: per-link charging rule, called by Progress.loadLink before every link load.
func github.com/ipld/go-ipld-prime/traversal.Progress.checkLinkBudget
  overflow checked
  modifies prog.Budget.LinkBudget
  ensures (result == nil) <==> (prog.Budget == nil || old(prog.Budget.LinkBudget) > 0)
  ensures (result == nil && prog.Budget != nil) ==> prog.Budget.LinkBudget == old(prog.Budget.LinkBudget) - 1
  ensures result != nil ==> prog.Budget.LinkBudget == old(prog.Budget.LinkBudget)

# the walk may spend budget
func github.com/ipld/go-ipld-prime/traversal.Progress.WalkAdv
  assumed
  modifies Budget.LinkBudget, Budget.NodeBudget
