# go-ipld-prime: functions small enough to be VERIFIED from the read-only source in the module cache
# (not assumed), and assumed contracts for the rest.
transparent traversal.Progress

# C07: per-link charging rule, called by Progress.loadLink before every link load.
func github.com/ipld/go-ipld-prime/traversal.Progress.checkLinkBudget
  overflow checked
  modifies prog.Budget.LinkBudget
  ensures (result == nil) <==> (prog.Budget == nil || old(prog.Budget.LinkBudget) > 0)
  ensures (result == nil && prog.Budget != nil) ==> prog.Budget.LinkBudget == old(prog.Budget.LinkBudget) - 1
  ensures result != nil ==> prog.Budget.LinkBudget == old(prog.Budget.LinkBudget)

# the walk may spend budget
func github.com/ipld/go-ipld-prime/traversal.Progress.WalkAdv
  assumed
  modifies Budget.LinkBudget, Budget.NodeBudget

# datamodel.Path as a finite sequence of segments (Path is an immutable value: a slice of PathSegment)
fn pathLen(p ref) int
fn pathSeg(p ref, i int) ref
axiom pathLen_nonneg: forall p ref {pathLen(p)} :: pathLen(p) >= 0
func github.com/ipld/go-ipld-prime/datamodel.Path.Len
  assumed
  modifies nothing
  ensures result == pathLen(self)
func github.com/ipld/go-ipld-prime/datamodel.Path.Segments
  assumed
  modifies nothing
  ensures len(result) == pathLen(self) && (forall i int :: 0 <= i && i < len(result) ==> result[i] == pathSeg(self, i))
func github.com/ipld/go-ipld-prime/datamodel.NewPath
  assumed
  modifies nothing
  ensures pathLen(result) == len(segments) && (forall i int :: 0 <= i && i < len(segments) ==> pathSeg(result, i) == segments[i])
func github.com/ipld/go-ipld-prime/datamodel.NewPathNocopy
  assumed
  modifies nothing
  ensures pathLen(result) == len(segments) && (forall i int :: 0 <= i && i < len(segments) ==> pathSeg(result, i) == segments[i])
func github.com/ipld/go-ipld-prime/datamodel.PathSegment.Equals
  assumed
  params o
  modifies nothing
  ensures result == (self == o)
# the textual form of a path: nothing assumed about it (two different paths may print with a common prefix)
func github.com/ipld/go-ipld-prime/datamodel.Path.String
  assumed
  modifies nothing
