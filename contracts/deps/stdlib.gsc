# standard library: assumed contracts
func errors.Is
  assumed
  modifies nothing
  ensures err == target && err != nil ==> result
# sync.Cond: waking a waiter changes no modelled state (what a waiter may observe after Wait is stated where Wait is used)
func sync.Cond.Signal
  assumed
  modifies nothing
func sync.Cond.Broadcast
  assumed
  modifies nothing
func sync.NewCond
  assumed
  modifies alloc
  ensures result != nil && fresh(result)
# a context's Done channel is a function of the context
fn doneChan(ctx ref) ref
func context.Context.Done
  assumed
  recvnonnil
  modifies nothing
  ensures result == doneChan(self)
# a context's error: nil until the context is cancelled (ghost: the current error of each context; who cancels what is
# stated where it matters)
ghost ctxErrOf map[ref]error
func context.Context.Err
  assumed
  recvnonnil
  modifies nothing
  ensures result == ctxErrOf[self]
# pure string helpers: nothing is assumed about their results (so a function that starts to rely on one of them has to
# prove its postcondition without knowing what it returned - it fails, rather than becoming undecidable)
func strings.HasPrefix
  assumed
  modifies nothing
func strings.HasSuffix
  assumed
  modifies nothing
func strings.Contains
  assumed
  modifies nothing
