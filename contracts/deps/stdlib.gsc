# standard library: assumed contracts
func errors.Is
  assumed
  modifies nothing
  ensures err == target && err != nil ==> result
