# go-block-format: assumed contracts (the library's debug mode, which re-hashes the data, is off)
fn blockLen(b ref) int

func github.com/ipfs/go-block-format.NewBlockWithCid
  assumed
  modifies alloc
  ensures result1 == nil && result0 != nil && blockLen(result0) == len(data)
func github.com/ipfs/go-block-format.Block.RawData
  assumed
  modifies nothing
  ensures len(result) == blockLen(self) && blockLen(self) >= 0
func github.com/ipfs/go-block-format.Block.Cid
  assumed
  modifies nothing
