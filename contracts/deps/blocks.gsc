# go-block-format: assumed contracts (the library's debug mode, which re-hashes the data, is off)
fn blockLen(b ref) int
fn blkCid(b ref) ref
fn blkData(b ref) []byte

func github.com/ipfs/go-block-format.NewBlockWithCid
  assumed
  modifies alloc
  ensures result1 == nil && result0 != nil && blockLen(result0) == len(data)
  ensures blkCid(result0) == c && blkData(result0) == data
func github.com/ipfs/go-block-format.Block.RawData
  assumed
  modifies nothing
  ensures len(result) == blockLen(self) && blockLen(self) >= 0 && result == blkData(self)
func github.com/ipfs/go-block-format.Block.Cid
  assumed
  modifies nothing
  ensures result == blkCid(self)
func github.com/ipfs/go-block-format.BasicBlock.Cid
  assumed
  modifies nothing
  ensures result == blkCid(self)
# a CID is "the sum of" some bytes when hashing exactly these bytes under the CID's own prefix gives that CID (go-cid
# Prefix.Sum); collision resistance of the hash is what makes "isSumOf(c, b)" mean "b is the genuine content named by c"
fn isSumOf(c ref, data []byte) bool
# go-cid: Equals is equality of the CID values
func github.com/ipfs/go-cid.Cid.Equals
  assumed
  params o
  modifies nothing
  ensures result == (self == o)
# C01: a list / map of decoded blocks in which every block is filed under, and hashes to, its own CID
pred blkListOK(bs []blocks.Block) := forall j int :: 0 <= j && j < len(bs) ==> bs[j] != nil && isSumOf(blkCid(bs[j]), blkData(bs[j]))
