# Module struct types treated as opaque values (sort V): only compared and used as map keys.
opaque graphsync.RequestID
