#!/usr/bin/env python3
# Generates MANIFEST.json from packs/*.json and properties.jsonl (single source of truth: manifest_src.json)
import json, os, glob
props = [json.loads(l) for l in open('/verif/properties.jsonl')]
src = json.load(open('/verif/manifest_src.json'))
checks = []
na = []
for p in props:
    pid = p['id']
    if pid in src['claims']:
        c = src['claims'][pid]
        checks.append({
            "property_id": pid,
            "quick_cmd": "bin/gsv check %s --tier quick" % pid,
            "thorough_cmd": "bin/gsv check %s --tier thorough" % pid,
            "evidence_file": "/verif/evidence/%s.json" % pid,
            "replay_cmd_template": "bin/gsv replay {path}",
            "engine": "gsv",
            "level_claimed": {"category": "proof", "text": c['text'], "design_ref": c.get('design_ref', 'DESIGN.md §4 ' + pid)},
            "level_note": c['note'],
            "technique": c.get('technique', "contract-based deductive verification: weakest-precondition VCs generated from the typed Go AST of the functions under contract, discharged by z3/cvc5"),
        })
    else:
        na.append({"property_id": pid, "reason": src['not_applicable'].get(pid, "no contract pack was completed for this property in the time available, so nothing is claimed and nothing is checked (a limit of effort, not a switch of technique; the planned contracts are in DESIGN.md section 4)")})
m = {
 "version": 1,
 "setup_cmd": "./setup.sh",
 "hooks": {
   "guard": "verif",
   "enable": "go build tag `verif`: the guarded additions are comment-only contract files <pkg>/zz_contracts_verif.go (//go:build verif) and one code file message/v2/zz_roundtrip_verif.go (//go:build verif: a lemma function composing toIPLD and fromIPLD, never compiled without the tag); gsv loads /repo with -tags=verif and reads the //@ clauses",
   "baseline_off_cmd": "cd /repo && PATH=/opt/veriftools/go1.26.8/bin:$PATH GOTOOLCHAIN=local GOFLAGS=-mod=mod GOPROXY=off GOSUMDB=off go test -json -vet=off -count=1 -timeout 25m ./...",
   "source_commits": src['hook_commits'],
   "add_only": True
 },
 "engines": [{"name": "gsv", "path": "/verif/engine", "serves_properties": sorted(src['claims'].keys()),
              "kind_free_text": "self-written VC generator for a subset of Go (go/packages + go/ast + go/types): per-function symbolic execution against Gobra-style contracts kept in comment-only files in /repo; obligations discharged by z3-new 5.1 / z3 4.8.12 / cvc5 1.0"}],
 "checks": checks,
 "not_applicable": na,
 "notes": src.get('notes', '')
}
json.dump(m, open('/verif/MANIFEST.json', 'w'), indent=1)
print(len(checks), 'checks', len(na), 'n/a')
