#!/bin/bash
# Parallel variant of run.sh: one scratch worktree of /repo per property (under /tmp, removed afterwards), up to $P
# properties at a time; the patches of one property run one after the other (they share evidence/<id>.json and
# out/replay/<id>). Same verdict lines as run.sh, same last_results.txt. Never part of a registered check.
# usage: selftest/run_par.sh [ID ...]          (P=4 by default)
cd "$(dirname "$0")/.."
P=${P:-4}
RES=/verif/selftest/last_results.txt

if [ "$1" = "--one" ]; then
  id=$2; wt=/tmp/st_$id
  git -C /repo worktree remove --force $wt 2>/dev/null; rm -rf $wt
  git -C /repo worktree add -q --detach $wt HEAD || exit 2
  for p in /verif/selftest/mutants/${id}_*.patch /verif/seeded/$id/patch.diff /verif/seeded/${id}_*/patch.diff; do
    [ -f "$p" ] || continue
    name="$(basename $(dirname $p))/$(basename $p)"
    if ! git -C $wt apply "$p" 2>/dev/null; then echo "SKIP  $id $name (does not apply)"; continue; fi
    out=$(GSV_REPO=$wt bin/gsv check "$id" 2>&1); rc=$?
    git -C $wt checkout -q -- . ; git -C $wt clean -fdq
    n=$(echo "$out" | grep -c '^VIOLATION')
    r=$(echo "$out" | grep '^VIOLATION' | grep -vc 'no-failing-input-found')
    if [ $rc -eq 1 ] && [ $n -gt 0 ]; then echo "CAUGHT $id $name: $n violation(s), $r replayed on the real code"; else echo "MISSED $id $name (exit $rc)"; fi
  done
  git -C /repo worktree remove --force $wt; rm -rf $wt
  exit 0
fi

if [ -n "$(git -C /repo status --porcelain --untracked-files=no)" ]; then echo "selftest: /repo has uncommitted changes, refusing to run"; exit 2; fi
want="$*"
ids=""
for p in /verif/selftest/mutants/*.patch /verif/seeded/C*/patch.diff; do
  case "$p" in */mutants/*) id=$(basename "$p" | cut -d_ -f1);; *) id=$(basename $(dirname "$p") | cut -d_ -f1);; esac
  case " $want " in "  "|*" $id "*) ;; *) continue;; esac
  [ -f "packs/$id.json" ] || { echo "SKIP  $id (no pack)"; continue; }
  case " $ids " in *" $id "*) ;; *) ids="$ids $id";; esac
done
tmp=$(mktemp -d)
for id in $ids; do echo $id; done | xargs -P $P -I{} sh -c "$0 --one {} > $tmp/{}.log 2>&1"
cat $tmp/*.log > $tmp/all 2>/dev/null
if [ -z "$want" ]; then cp $tmp/all $RES; else for id in $want; do grep -v "^[A-Z]* *$id " $RES > $RES.tmp; mv $RES.tmp $RES; done; cat $tmp/all >> $RES; fi
cat $tmp/all; rm -rf $tmp
git -C /repo worktree prune
grep -q '^MISSED' $RES && exit 1; exit 0
