#!/bin/sh
# Must-fail corpus: every patch here breaks a property while compiling (most also pass the repository's own tests; DESIGN.md 8.5 says which do not).
# Applies each to /repo's working tree, runs the property's quick check, expects exit 1 with a VIOLATION line,
# and restores the tree. Run after every engine / contract change (never part of a registered check).
# usage: selftest/run.sh [ID ...]   (default: everything)
cd "$(dirname "$0")/.."
if [ -n "$(git -C /repo status --porcelain --untracked-files=no)" ]; then echo "selftest: /repo has uncommitted changes, refusing to run"; exit 2; fi
fail=0
RES=/verif/selftest/last_results.txt
[ -z "$*" ] && : > $RES
run() { # patch id
  p="$1"; id="$2"
  [ -f "packs/$id.json" ] || { echo "SKIP  $id $(basename $p) (no pack)"; return; }
  git -C /repo apply "$p" 2>/dev/null || { echo "SKIP  $id $p (does not apply)"; return; }
  out=$(bin/gsv check "$id" 2>&1); rc=$?
  git -C /repo checkout -- . 
  n=$(echo "$out" | grep -c '^VIOLATION')
  r=$(echo "$out" | grep '^VIOLATION' | grep -vc 'no-failing-input-found')
  if [ $rc -eq 1 ] && [ $n -gt 0 ]; then line="CAUGHT $id $(basename $(dirname $p))/$(basename $p): $n violation(s), $r replayed on the real code"; else line="MISSED $id $(basename $(dirname $p))/$(basename $p) (exit $rc)"; fail=1; fi
  echo "$line"; grep -v " $(basename $(dirname $p))/$(basename $p)" $RES > $RES.tmp 2>/dev/null; mv $RES.tmp $RES; echo "$line" >> $RES
}
want="$*"
for p in /verif/selftest/mutants/*.patch; do id=$(basename "$p" | cut -d_ -f1); case " $want " in "  "|*" $id "*) run "$p" "$id";; esac; done
for d in /verif/seeded/C*/; do id=$(basename "$d" | cut -d_ -f1); case " $want " in "  "|*" $id "*) run "$d/patch.diff" "$id";; esac; done
exit $fail
