package main

import (
	"fmt"
	"go/ast"
	"go/token"
	"go/types"
)

// escapingLocals: local struct variables whose address is taken (explicitly with & or implicitly by
// calling a pointer-receiver method on them). They are modelled as heap objects: the variable holds
// a reference and field accesses go through the per-field heap arrays.
func escapingLocals(body *ast.BlockStmt, info *types.Info, d *Decls) map[types.Object]bool {
	out := map[types.Object]bool{}
	mark := func(e ast.Expr) {
		id, ok := ast.Unparen(e).(*ast.Ident)
		if !ok {
			return
		}
		v, ok := info.ObjectOf(id).(*types.Var)
		if !ok || v.IsField() {
			return
		}
		if n, _, isPtr := derefNamedStruct(v.Type()); n != nil && !isPtr && d.modelled(n) {
			out[v] = true
		}
	}
	ast.Inspect(body, func(n ast.Node) bool {
		switch x := n.(type) {
		case *ast.UnaryExpr:
			if x.Op == token.AND {
				mark(x.X)
			}
		case *ast.CallExpr:
			if sel, ok := ast.Unparen(x.Fun).(*ast.SelectorExpr); ok {
				if s, ok := info.Selections[sel]; ok && s.Kind() == types.MethodVal {
					if fn, ok := s.Obj().(*types.Func); ok {
						if r := fn.Type().(*types.Signature).Recv(); r != nil {
							if _, isPtr := r.Type().Underlying().(*types.Pointer); isPtr {
								mark(sel.X)
							}
						}
					}
				}
			}
		}
		return true
	})
	return out
}

// bindLocal assigns a value to a local variable, moving escaping struct locals to the heap.
func (c *FnCtx) bindLocal(st *State, v *types.Var, val Term, pos token.Pos) {
	if cur, ok := st.vars[v]; ok && cur.Cell {
		// assignment to a local whose address was taken: write its heap cell
		key := "P:" + typeShortName(v.Type())
		arr := c.heapGet(st, key, arraySort(sV, c.e.d.sortOf(v.Type())))
		c.heapSet(st, key, Term{S: sSto(arr.S, cur.S, val.S), Sort: arr.Sort})
		return
	}
	if c.escaping[v] && val.Sort.Kind == KStruct {
		n, stt, _ := derefNamedStruct(v.Type())
		var ref Term
		if cur, ok := st.vars[v]; ok && cur.Sort.Kind == KV {
			ref = cur // re-assignment of the whole struct: overwrite the fields in place
		} else {
			ref = Term{S: c.newRef(st, v.Name()), Sort: sV, T: types.NewPointer(v.Type())}
			c.tagRef(st, ref)
		}
		for i := 0; i < stt.NumFields(); i++ {
			f := stt.Field(i)
			c.writeField(st, ref, n, f, Term{S: sApp(val.Sort.sel(f.Name()), val.S), Sort: val.Sort.Fields[i].Sort, T: f.Type()}, pos, true)
		}
		st.vars[v] = ref
		return
	}
	st.vars[v] = val
}

// implementsTerm: whether the dynamic type of an interface value implements an interface type is a
// fixed (uninterpreted) function of the dynamic type, so repeated assertions on one value agree.
func (c *FnCtx) implementsTerm(v Term, iface types.Type) string {
	d := c.e.d
	d.declFun("dyntype", "V", "Int")
	fn := "impl." + typeShortName(iface)
	d.declFun(fn, "Int", "Bool")
	return sApp(fn, sApp("dyntype", v.S))
}

// sliceElemGo: the Go element type of a slice term: from the term's own Go type when known (several
// Go slice types share one SMT slice sort), else the type recorded when the sort was created.
func sliceElemGo(s Term) types.Type {
	if s.T != nil {
		if st, ok := s.T.Underlying().(*types.Slice); ok {
			return st.Elem()
		}
	}
	return s.Sort.ElemGo
}

// typeDesignator resolves the type part of a `Type.field` designator: a bare struct type name
// (local package, transparent dependency struct, or unique in the module) or a qualified one
// (`pkgalias.Type`, resolved in the file scope of the contract's package).
func (sc *SpecCtx) typeDesignator(e SExpr) *types.Named {
	switch x := e.(type) {
	case *SIdent:
		if _, bound := sc.env[x.Name]; bound {
			return nil
		}
		if sc.c.e.ghosts[x.Name] != nil {
			return nil
		}
		return sc.lookupTypeName(x.Name)
	case *SField:
		id, ok := x.X.(*SIdent)
		if !ok {
			return nil
		}
		if _, bound := sc.env[id.Name]; bound {
			return nil
		}
		if sc.lookupTypeName(id.Name) != nil || sc.c.e.ghosts[id.Name] != nil {
			return nil // Type.field used as an expression, not pkg.Type
		}
		var t types.Type
		func() {
			defer func() { recover() }()
			t = sc.c.e.resolveGoType(id.Name+"."+x.Name, sc.pkg, sc.pos)
		}()
		if t == nil {
			return nil
		}
		if n, ok := types.Unalias(t).(*types.Named); ok {
			if _, ok := n.Underlying().(*types.Struct); ok {
				return n
			}
		}
	}
	return nil
}

func structField(n *types.Named, name string) *types.Var {
	stt, ok := n.Underlying().(*types.Struct)
	if !ok {
		return nil
	}
	for i := 0; i < stt.NumFields(); i++ {
		if stt.Field(i).Name() == name {
			return stt.Field(i)
		}
	}
	return nil
}

// exitTag names the exit point of a path: "@ret<k>" for the k-th return statement of the function
// (source order, function literals excluded) or "@end" when the body falls off its end. Postcondition
// obligations are named per exit point so that a known finding can be pinned to one exit.
func (c *FnCtx) exitTag(o Outcome) string {
	if o.ret == nil {
		return "@end"
	}
	if c.retOrd == nil {
		c.retOrd = map[*ast.ReturnStmt]int{}
		n := 0
		ast.Inspect(c.fi.Body, func(nd ast.Node) bool {
			switch x := nd.(type) {
			case *ast.FuncLit:
				return false
			case *ast.ReturnStmt:
				n++
				c.retOrd[x] = n
			}
			return true
		})
	}
	if k, ok := c.retOrd[o.ret]; ok {
		return fmt.Sprintf("@ret%d", k)
	}
	return "@ret"
}

// resetDecls gives every function under contract its own declaration registry, so that the text of
// its queries (symbol numbering, declared constants) does not depend on which other functions were
// processed before it in the same run: solver behaviour on quantified goals is sensitive to that.
func (e *Engine) resetDecls() {
	old := e.d
	d := newDecls(old.modPath)
	for k, v := range old.opaque {
		d.opaque[k] = v
	}
	for k, v := range old.transparent {
		d.transparent[k] = v
	}
	for k, v := range old.typeTags { // type tags stay stable across functions
		d.typeTags[k] = v
	}
	e.d = d
	binderCounter = 0
	for _, g := range e.ghosts {
		g.Sort = nil
		g.GT = nil
	}
	if err := e.registerAxioms(); err != nil {
		panic(toolErr("axioms: %v", err))
	}
}
