package main

import (
	"go/ast"
	"go/token"
	"go/types"
)

// escapingLocals: local struct variables whose address is taken (explicitly with & or implicitly by
// calling a pointer-receiver method on them). They are modelled as heap objects: the variable holds
// a reference and field accesses go through the per-field heap arrays.
func escapingLocals(body *ast.BlockStmt, info *types.Info, d *Decls) map[types.Object]bool {
	out := map[types.Object]bool{}
	mark := func(e ast.Expr) {
		id, ok := ast.Unparen(e).(*ast.Ident)
		if !ok {
			return
		}
		v, ok := info.ObjectOf(id).(*types.Var)
		if !ok || v.IsField() {
			return
		}
		if n, _, isPtr := derefNamedStruct(v.Type()); n != nil && !isPtr && d.modelled(n) {
			out[v] = true
		}
	}
	ast.Inspect(body, func(n ast.Node) bool {
		switch x := n.(type) {
		case *ast.UnaryExpr:
			if x.Op == token.AND {
				mark(x.X)
			}
		case *ast.CallExpr:
			if sel, ok := ast.Unparen(x.Fun).(*ast.SelectorExpr); ok {
				if s, ok := info.Selections[sel]; ok && s.Kind() == types.MethodVal {
					if fn, ok := s.Obj().(*types.Func); ok {
						if r := fn.Type().(*types.Signature).Recv(); r != nil {
							if _, isPtr := r.Type().Underlying().(*types.Pointer); isPtr {
								mark(sel.X)
							}
						}
					}
				}
			}
		}
		return true
	})
	return out
}

// bindLocal assigns a value to a local variable, moving escaping struct locals to the heap.
func (c *FnCtx) bindLocal(st *State, v *types.Var, val Term, pos token.Pos) {
	if c.escaping[v] && val.Sort.Kind == KStruct {
		n, stt, _ := derefNamedStruct(v.Type())
		var ref Term
		if cur, ok := st.vars[v]; ok && cur.Sort.Kind == KV {
			ref = cur // re-assignment of the whole struct: overwrite the fields in place
		} else {
			ref = Term{S: c.newRef(st, v.Name()), Sort: sV, T: types.NewPointer(v.Type())}
		}
		for i := 0; i < stt.NumFields(); i++ {
			f := stt.Field(i)
			c.writeField(st, ref, n, f, Term{S: sApp(val.Sort.sel(f.Name()), val.S), Sort: val.Sort.Fields[i].Sort, T: f.Type()}, pos, true)
		}
		st.vars[v] = ref
		return
	}
	st.vars[v] = val
}

// implementsTerm: whether the dynamic type of an interface value implements an interface type is a
// fixed (uninterpreted) function of the dynamic type, so repeated assertions on one value agree.
func (c *FnCtx) implementsTerm(v Term, iface types.Type) string {
	d := c.e.d
	d.declFun("dyntype", "V", "Int")
	fn := "impl." + typeShortName(iface)
	d.declFun(fn, "Int", "Bool")
	return sApp(fn, sApp("dyntype", v.S))
}
