package main

import (
	"go/ast"
	"go/token"
)

// storeNestedValue writes nv at the field path `path` below the value root of rootExpr, where the tail of
// the path goes through struct VALUES (embedded or nested structs, x.a.b = v / p.embedded.f = v). The write lands in
// the innermost pointer's field array when the path crosses a pointer, otherwise the rebuilt root value is assigned
// back to rootExpr.
func (c *FnCtx) storeNestedValue(st *State, root Term, rootExpr ast.Expr, path []int, nv Term, pos token.Pos) {
	vals := []Term{root}
	for i := 0; i < len(path)-1; i++ {
		vals = append(vals, c.selectPath(st, vals[i], path[i:i+1], pos))
	}
	cur := nv
	for i := len(path) - 1; i >= 0; i-- {
		cont := vals[i]
		n, stt, isPtr := derefNamedStruct(cont.T)
		if n == nil {
			panic(unsup("nested field assignment on %v", cont.T))
		}
		f := stt.Field(path[i])
		if isPtr {
			c.nilCheck(st, cont, pos, f.Name())
			c.writeField(st, cont, n, f, cur, pos, false)
			return
		}
		if cont.Sort.Kind != KStruct {
			panic(unsup("nested field assignment through an opaque struct value"))
		}
		var parts []string
		for k, fi := range cont.Sort.Fields {
			if k == path[i] {
				parts = append(parts, cur.S)
			} else {
				parts = append(parts, sApp(cont.Sort.sel(fi.Name), cont.S))
			}
		}
		cur = Term{S: sApp(cont.Sort.ctor(), parts...), Sort: cont.Sort, T: cont.T}
	}
	c.assignTo(st, rootExpr, cur, pos)
}

// checkLoopExit: `loop N exit EXPR` clauses are obligations on every state in which loop N is left (its guard is
// false, or a break leaves it).
func (c *FnCtx) checkLoopExit(st *State, ord int, pos token.Pos) {
	if c.fc == nil || len(c.fc.LoopExit[ord]) == 0 {
		return
	}
	c.checkInvariant(st, c.fc.LoopExit[ord], ord, "exit", pos, nil)
}
