package main

import (
	"bytes"
	"go/ast"
	"go/printer"
	"strings"
)

// exprText prints an argument expression as source text on one line (used by `callsite ... argis`).
func (c *FnCtx) exprText(e ast.Expr) string {
	var b bytes.Buffer
	if err := printer.Fprint(&b, c.e.fset, e); err != nil {
		return ""
	}
	return strings.Join(strings.Fields(b.String()), " ")
}
