package main

import (
	"fmt"
	"go/types"
	"os"
)

// Map operations with an interface-typed key hash the DYNAMIC value of the key and panic at run time when
// its dynamic type is not hashable (slice, map, func, or a struct / array containing one). Safety rule
// "map-key-hashable": every such operation needs `hashable(dyntype k)` (or a nil key). Boxing a value of a
// comparable static type records that its type tag is hashable; for an arbitrary interface value nothing is
// known, so the obligation fails unless a contract provides the fact.
//
// The rule is OPT-IN per pack ("safety_rules": ["map-key-hashable"], or GSV_HASHABLE=1 for `gsv fn`). It is
// meant for packs whose claim is about values of arbitrary dynamic type (C22: recovered panic objects wrapped
// in error values). In every other pack an interface-keyed map operation is executed under the recorded
// environment assumption that the key's dynamic type is hashable: the key interfaces used in this code base
// (ipld.Link, notifications.Topic) are map-key types by design of their packages, none of the listed
// properties is about callers that pass an unhashable key, and demanding the fact there made the C18, C19
// and C24 checks report obligations no contract in reach could ever discharge (a false alarm of the check,
// see DESIGN.md "False alarms corrected").
var hashableRuleOn = os.Getenv("GSV_HASHABLE") == "1"

func (c *FnCtx) hashableKey(st *State, mt *types.Map, k Term, what string) {
	if !c.safety {
		return
	}
	if _, isIface := mt.Key().Underlying().(*types.Interface); !isIface {
		return
	}
	if !hashableRuleOn {
		c.e.trusted["map keyed by interface type "+typeShortName(mt.Key())+" in "+shortFn(c.fi.Key)+": the dynamic type of every key is assumed hashable (rule map-key-hashable not enabled for this pack)"] = true
		return
	}
	d := c.e.d
	d.declFun("dyntype", "V", "Int")
	d.declFun("hashable", "Int", "Bool")
	goal := fmt.Sprintf("(or (= %s nilV) (hashable (dyntype %s)))", k.S, k.S)
	c.oblige(st, "map-key-hashable", what, c.fi.Body.Pos(), goal, "the dynamic type of an interface-typed map key is hashable (the map operation cannot panic)")
}

// noteHashable: called when a value of static type t is boxed into an interface.
func (c *FnCtx) noteHashable(st *State, t types.Type) {
	if !hashableRuleOn || t == nil || !types.Comparable(t) {
		return
	}
	if _, isIface := t.Underlying().(*types.Interface); isIface {
		return
	}
	d := c.e.d
	d.declFun("hashable", "Int", "Bool")
	st.assume(fmt.Sprintf("(hashable %d)", d.typeTag(t)))
}
