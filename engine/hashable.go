package main

import (
	"fmt"
	"go/types"
)

// Map operations with an interface-typed key hash the DYNAMIC value of the key and panic at run time when
// its dynamic type is not hashable (slice, map, func, or a struct / array containing one). Safety rule:
// every such operation needs `hashable(dyntype k)` (or a nil key). Boxing a value of a comparable static
// type records that its type tag is hashable; for an arbitrary interface value nothing is known, so the
// obligation fails unless a contract provides the fact.
func (c *FnCtx) hashableKey(st *State, mt *types.Map, k Term, what string) {
	if !c.safety {
		return
	}
	if _, isIface := mt.Key().Underlying().(*types.Interface); !isIface {
		return
	}
	d := c.e.d
	d.declFun("dyntype", "V", "Int")
	d.declFun("hashable", "Int", "Bool")
	goal := fmt.Sprintf("(or (= %s nilV) (hashable (dyntype %s)))", k.S, k.S)
	c.oblige(st, "map-key-hashable", what, c.fi.Body.Pos(), goal, "the dynamic type of an interface-typed map key is hashable (the map operation cannot panic)")
}

// noteHashable: called when a value of static type t is boxed into an interface.
func (c *FnCtx) noteHashable(st *State, t types.Type) {
	if t == nil || !types.Comparable(t) {
		return
	}
	if _, isIface := t.Underlying().(*types.Interface); isIface {
		return
	}
	d := c.e.d
	d.declFun("hashable", "Int", "Bool")
	st.assume(fmt.Sprintf("(hashable %d)", d.typeTag(t)))
}
