package main

func runReplayTemplate(e *Engine, dir, base string, g *oblGroup, pack *Pack) (bool, string, string) {
	return false, "replay templates not built yet", ""
}
