package main

import (
	"context"
	"encoding/json"
	"fmt"
	"os"
	"os/exec"
	"path/filepath"
	"regexp"
	"strings"
	"time"
)

// ReplayTemplate: which template replays which obligations of a pack.
type ReplayTemplate struct {
	Obligation string `json:"obligation"` // regexp on "fn :: name"
	Template   string `json:"template"`   // file under /verif/replay/templates
	Package    string `json:"package"`    // package directory relative to the repo root
	Run        string `json:"run"`        // -run pattern
}

var reHole = regexp.MustCompile(`\{\{([A-Za-z_][A-Za-z0-9_]*)\}\}`)

// runReplayTemplate instantiates the template with the model values, injects it into the package
// with -overlay (nothing is written to the repo) and runs it. The defect is reproduced on the real
// code iff the generated test FAILS.
func runReplayTemplate(e *Engine, dir, base string, g *oblGroup, pack *Pack) (bool, string, string) {
	var tm *ReplayTemplate
	label := shortFn(g.Fn) + " :: " + g.Name
	for i := range pack.Replays {
		if matchRE(pack.Replays[i].Obligation, label) {
			tm = &pack.Replays[i]
		}
	}
	if tm == nil {
		return false, "no replay template matches this obligation", ""
	}
	src, err := os.ReadFile(filepath.Join(e.verifDir, "replay", "templates", tm.Template))
	if err != nil {
		return false, "template missing: " + err.Error(), ""
	}
	missing := ""
	text := reHole.ReplaceAllStringFunc(string(src), func(h string) string {
		name := reHole.FindStringSubmatch(h)[1]
		v, ok := g.Bad.Model[name]
		if !ok {
			missing = name
			return "0"
		}
		v = strings.TrimSpace(v)
		if strings.HasPrefix(v, "(- ") {
			v = "-" + strings.TrimSuffix(strings.TrimPrefix(v, "(- "), ")")
		}
		return v
	})
	if missing != "" {
		return false, "the model has no value for template parameter " + missing, ""
	}
	testFile := filepath.Join(dir, base+"_replay_test.go")
	os.WriteFile(testFile, []byte(text), 0o644)
	pkgDir := filepath.Join(e.repo, tm.Package)
	ov := map[string]map[string]string{"Replace": {filepath.Join(pkgDir, "zz_gsv_replay_test.go"): testFile}}
	ovb, _ := json.Marshal(ov)
	ovFile := filepath.Join(dir, base+"_overlay.json")
	os.WriteFile(ovFile, ovb, 0o644)
	ctx, cancel := context.WithTimeout(context.Background(), 180*time.Second)
	defer cancel()
	run := tm.Run
	if run == "" {
		run = "TestGsvReplay"
	}
	cmd := exec.CommandContext(ctx, "go", "test", "-overlay", ovFile, "-vet=off", "-count=1", "-timeout", "60s", "-run", run, "./"+strings.TrimPrefix(tm.Package, "./"))
	cmd.Dir = e.repo
	out, err := cmd.CombinedOutput()
	os.WriteFile(filepath.Join(dir, base+"_replay_output.txt"), out, 0o644)
	s := string(out)
	switch {
	case strings.Contains(s, "--- FAIL") || (err != nil && strings.Contains(s, "FAIL") && !strings.Contains(s, "[build failed]") && !strings.Contains(s, "[setup failed]")):
		return true, fmt.Sprintf("replayed on the real code: the generated test fails (model values %v); output in %s", g.Bad.Model, filepath.Join(dir, base+"_replay_output.txt")), testFile
	case err == nil:
		return false, "replayed on the real code: the generated test passes, so this model does not expose a failing input", testFile
	default:
		return false, "replay could not be run: " + head(s, 400), testFile
	}
}
