package main

import (
	"fmt"
	"go/ast"
	"go/token"
	"go/types"
	"sort"
	"strings"
)

type FnResult struct {
	Key      string
	Obls     []*Obligation
	Err      error // unsupported construct or tool error: function is out of reach
	Paths    int
	Assumed  bool
}

// numberLoops assigns ordinals (source order, 1-based) to the loops of a function body,
// not descending into function literals (they are functions of their own).
func numberLoops(body *ast.BlockStmt) map[ast.Node]int {
	m := map[ast.Node]int{}
	n := 0
	ast.Inspect(body, func(nd ast.Node) bool {
		switch nd.(type) {
		case *ast.FuncLit:
			return false
		case *ast.ForStmt, *ast.RangeStmt:
			n++
			m[nd] = n
		}
		return true
	})
	return m
}

// verifyFunc generates the obligations of one function under contract.
func (e *Engine) verifyFunc(key string) (res *FnResult) {
	res = &FnResult{Key: key}
	fc := e.contracts[key]
	fi := e.funcs[key]
	if fc == nil {
		res.Err = toolErr("no contract for %s", key)
		return
	}
	if fi == nil {
		res.Err = toolErr("contract %s (%s:%d) names no function with a body in the loaded packages", key, fc.File, fc.Line)
		return
	}
	if fc.Assumed || fc.Inline {
		res.Assumed = true
		return
	}
	var obls []*Obligation
	c := &FnCtx{e: e, fi: fi, fc: fc, info: fi.Pkg.TypesInfo, env: map[string]Term{}, obls: &obls,
		loopOrd: numberLoops(fi.Body), overflow: fc.Overflow, safety: !fc.SafetyOff, names: map[string]int{}, posName: map[string]string{},
		watch: map[string]string{}, labels: map[ast.Stmt]string{}}
	defer func() {
		if r := recover(); r != nil {
			switch x := r.(type) {
			case unsupported:
				res.Err = fmt.Errorf("out of reach: %s", string(x))
			case toolError:
				res.Err = x
			default:
				panic(r)
			}
		}
		res.Obls = obls
	}()
	e.resetDecls()
	c.escaping = escapingLocals(fi.Body, fi.Pkg.TypesInfo, e.d)
	st := newState()
	sig := fi.Sig
	bind := func(v *types.Var, hint string) {
		if v == nil {
			return
		}
		t := c.fresh(st, hint, v.Type())
		c.readFacts(st, t)
		st.vars[v] = t
		name := v.Name()
		if name != "" && name != "_" {
			c.env[name] = t
			if t.Sort.Kind == KInt || t.Sort.Kind == KBool || t.Sort.Kind == KV {
				c.watch[name] = t.S
			}
		}
	}
	if fi.Recv != nil {
		bind(fi.Recv, fi.Recv.Name())
		if _, isPtr := fi.Recv.Type().Underlying().(*types.Pointer); isPtr {
			st.assume(sNot(sEq(st.vars[fi.Recv].S, "nilV")))
			e.trusted["receivers of methods under contract are non-nil"] = true
		}
		c.env["self"] = st.vars[fi.Recv]
	}
	for i := 0; i < sig.Params().Len(); i++ {
		bind(sig.Params().At(i), sig.Params().At(i).Name())
	}
	// captured variables of a closure: free variables become inputs named by their identifiers
	if fi.Lit != nil {
		c.bindCaptured(st, fi)
	}
	for i := 0; i < sig.Results().Len(); i++ {
		rv := sig.Results().At(i)
		if rv.Name() != "" && rv.Name() != "_" {
			so := e.d.sortOf(rv.Type())
			st.vars[rv] = Term{S: e.d.zero(so), Sort: so, T: rv.Type()}
		}
	}
	c.entry = st // provisional, so that requires can be evaluated
	entrySnap := st.clone()
	c.entry = entrySnap
	sc := &SpecCtx{c: c, pkg: fi.Pkg, pos: fi.Body.Pos(), env: c.env, st: st, old: entrySnap}
	for _, r := range fc.Requires {
		st.assume(sc.eval(r.E).S)
	}
	// vacuity: the preconditions must be satisfiable
	if len(fc.Requires) > 0 {
		o := &Obligation{Name: "cover:requires", Fn: key, Kind: "cover", Desc: "preconditions are satisfiable (vacuity guard)", Pos: c.pos(fi.Body.Pos()),
			Assumps: append([]string(nil), st.path...), Goal: "false", ExpectSat: true, D: e.d}
		obls = append(obls, o)
	}
	entrySnap = st.clone()
	c.entry = entrySnap
	for _, w := range fc.Watches {
		wt := (&SpecCtx{c: c, pkg: fi.Pkg, pos: fi.Body.Pos(), env: c.env, st: entrySnap, old: entrySnap}).eval(w.Val)
		c.watch[w.Target] = wt.S
	}
	outs := c.execBlock(st, fi.Body.List)
	res.Paths = len(outs)
	nexit := 0
	for _, o := range outs {
		if o.st.dead {
			continue
		}
		if o.kind == oBreak || o.kind == oContinue {
			panic(unsup("break/continue escapes function body"))
		}
		if o.kind == oNext {
			o.kind = oReturn
			// fall off the end: named results
			for i := 0; i < sig.Results().Len(); i++ {
				o.res = append(o.res, o.st.vars[sig.Results().At(i)])
			}
		}
		for _, fo := range c.runDefers(o) {
			nexit++
			c.checkExit(fo, fc, entrySnap)
		}
	}
	for i, cs := range fc.CallSites {
		if !c.matchedCallSites[i] {
			obls = append(obls, &Obligation{Name: fmt.Sprintf("callsite-present:%s/assert%d", lastSeg(cs.Callee), i+1), Fn: key, Kind: "callsite",
				Desc: "the call this assertion is attached to exists on some path: " + cs.Src, Pos: c.pos(fi.Body.Pos()), Goal: "false", Watch: map[string]string{}, D: e.d})
		}
	}
	if nexit == 0 && len(fc.Ensures) > 0 {
		// every path ends in panic/dead: nothing to check, flag as vacuous
		e.trusted["function "+key+" has no normal exit path"] = true
	}
	return
}

func (c *FnCtx) bindCaptured(st *State, fi *FuncInfo) {
	// identifiers used in the literal whose objects are declared outside it
	seen := map[types.Object]bool{}
	ast.Inspect(fi.Lit.Body, func(n ast.Node) bool {
		id, ok := n.(*ast.Ident)
		if !ok {
			return true
		}
		v, ok := c.info.Uses[id].(*types.Var)
		if !ok || v.IsField() || seen[v] {
			return true
		}
		if v.Pkg() != nil && v.Parent() == v.Pkg().Scope() {
			return true
		}
		if v.Pos() >= fi.Lit.Pos() && v.Pos() <= fi.Lit.End() {
			return true
		}
		seen[v] = true
		if c.captured == nil {
			c.captured = map[*types.Var]bool{}
		}
		c.captured[v] = true
		t := c.fresh(st, v.Name(), v.Type())
		c.readFacts(st, t)
		st.vars[v] = t
		c.env[v.Name()] = t
		if t.Sort.Kind == KInt || t.Sort.Kind == KBool {
			c.watch[v.Name()] = t.S
		}
		return true
	})
}

// checkExit emits the postcondition and frame obligations for one exit state.
func (c *FnCtx) checkExit(o Outcome, fc *FuncContract, entry *State) {
	st := o.st
	env := copyEnv(c.env)
	sig := c.fi.Sig
	for i, r := range o.res {
		env[fmt.Sprintf("result%d", i)] = r
		if i == 0 {
			env["result"] = r
		}
		if i < sig.Results().Len() {
			if rv := sig.Results().At(i); rv.Name() != "" && rv.Name() != "_" {
				env[rv.Name()] = r
			}
		}
	}
	for v := range c.captured {
		if t, ok := st.vars[v]; ok {
			env[v.Name()] = t
		}
	}
	sc := &SpecCtx{c: c, pkg: c.fi.Pkg, pos: c.fi.Body.Pos(), env: env, st: st, old: entry}
	c.applyGhostUpdates(st, fc, sc)
	if len(fc.Ensures) > 0 && !st.dead && c.inlineDepth == 0 {
		// vacuity guard: the assumptions collected along the path to this exit (path condition, callee postconditions,
		// invariants, axioms and lemma instances) must not be refutable - otherwise every postcondition checked here
		// would hold vacuously (a contradictory contract or lemma, or dead code that a contract should name)
		ex := &Obligation{Name: "cover:exit" + c.exitTag(o), Fn: c.fi.Key, Kind: "cover", Desc: "the path to this exit is not contradictory (vacuity guard)",
			Pos: c.pos(c.fi.Body.End()), Assumps: append(append([]string(nil), st.path...), c.useHints(st)...), PathOnly: append([]string{"true"}, st.path...), Goal: "false", ExpectSat: true, D: c.e.d}
		*c.obls = append(*c.obls, ex)
	}
	for i, en := range fc.Ensures {
		for _, cj := range sc.evalConjuncts(en.E, "") {
			c.oblige(st, "post", fmt.Sprintf("ensures%d%s%s", i+1, cj.Path, c.exitTag(o)), c.fi.Body.End(), cj.Term.S, "postcondition: "+cj.Src)
		}
	}
	c.checkFrame(st, fc, entry, sc)
}

// frameFormula: forall r. (exceptions) or cur[r] = old[r]. A trigger on the current array is given
// only when it is a plain constant (used as a hypothesis after a loop havoc); solvers reject
// `ite` inside patterns.
func frameFormula(exceptions, cur, old string) string {
	body := fmt.Sprintf("(or %s (= (select %s r) (select %s r)))", exceptions, cur, old)
	if !strings.ContainsAny(cur, "( ") {
		return fmt.Sprintf("(forall ((r V)) (! %s :pattern ((select %s r))))", body, cur)
	}
	return fmt.Sprintf("(forall ((r V)) %s)", body)
}

type frameGoal struct {
	key, detail, goal, desc string
}

// frameGoals: for every heap array / ghost that differs from its value at function entry and
// is not wholly covered by the modifies clause, the formula saying that only the named
// locations (or freshly allocated objects) changed.
func (c *FnCtx) frameGoals(st *State, fc *FuncContract, entry *State, sc *SpecCtx, onlyKeys map[string]bool) []frameGoal {
	var keys []string
	for k := range st.heap {
		keys = append(keys, k)
	}
	sort.Strings(keys)
	allocEntry := c.allocArr(entry)
	var out []frameGoal
	for _, k := range keys {
		if onlyKeys != nil && !onlyKeys[k] {
			continue
		}
		cur := st.heap[k]
		var old Term
		if t, ok := entry.heap[k]; ok {
			old = t
		} else {
			old = Term{S: heapInitName(k), Sort: cur.Sort}
			c.e.d.declConst(old.S, cur.Sort)
		}
		if cur.S == old.S {
			continue
		}
		if k == "alloc" {
			continue // allocation is always permitted
		}
		whole, locs, mapObjs := c.frameDesignators(k, fc, sc, entry)
		if whole {
			continue
		}
		switch {
		case strings.HasPrefix(k, "F:") || strings.HasPrefix(k, "P:"):
			var ex []string
			for _, l := range locs {
				ex = append(ex, sEq("r", l))
			}
			ex = append(ex, sNot(sSel(allocEntry.S, "r")))
			goal := frameFormula(strings.Join(ex, " "), cur.S, old.S)
			out = append(out, frameGoal{k, strings.TrimPrefix(k, "F:"+c.fi.Pkg.PkgPath+"."), goal, "only locations named in modifies (or freshly allocated) change in " + k})
		case strings.HasPrefix(k, "MD:") || strings.HasPrefix(k, "MV:"):
			var ex []string
			for _, l := range mapObjs {
				ex = append(ex, sEq("r", l))
			}
			ex = append(ex, sNot(sSel(allocEntry.S, "r")))
			goal := frameFormula(strings.Join(ex, " "), cur.S, old.S)
			out = append(out, frameGoal{k, k, goal, "only maps named in modifies (or freshly allocated) change in " + k})
		default:
			out = append(out, frameGoal{k, k, sEq(cur.S, old.S), k + " is not in the modifies clause and must be unchanged"})
		}
	}
	return out
}

// checkFrame: the frame condition as obligations (function exit, loop entry, loop back-edge).
func (c *FnCtx) checkFrame(st *State, fc *FuncContract, entry *State, sc *SpecCtx) {
	for _, g := range c.frameGoals(st, fc, entry, sc, nil) {
		c.oblige(st, "frame", g.detail, c.fi.Body.End(), g.goal, g.desc)
	}
}

// loopFrame: the frame condition is an implicit invariant of every loop. phase "check" emits
// obligations; phase "assume" (after the havoc) assumes it for the havoced keys.
func (c *FnCtx) loopFrame(st *State, phase string, ord int, pos token.Pos) {
	if c.fc == nil || c.entry == nil || c.inlineDepth > 0 {
		return
	}
	sc := c.specCtx(st)
	for _, g := range c.frameGoals(st, c.fc, c.entry, sc, nil) {
		if phase == "assume" {
			st.assume(g.goal)
		} else {
			c.oblige(st, "loop-frame-"+phase, fmt.Sprintf("loop%d/%s", ord, g.detail), pos, g.goal, g.desc)
		}
	}
}

// frameDesignators returns whether key k is wholly covered, and the specific locations / map objects covered.
func (c *FnCtx) frameDesignators(k string, fc *FuncContract, sc *SpecCtx, entry *State) (whole bool, locs []string, mapObjs []string) {
	psc := *sc
	psc.st = entry
	for _, m := range fc.Modifies {
		if m == "alloc" {
			continue
		}
		if c.e.ghosts[m] != nil {
			if k == "G:"+m {
				return true, nil, nil
			}
			continue
		}
		if strings.HasPrefix(m, "allmaps(") && strings.HasSuffix(m, ")") {
			mt := c.allmapsType(m, &psc, entry)
			if k == "MD:"+mapTypeName(mt) || k == "MV:"+mapTypeName(mt) {
				return true, nil, nil
			}
			continue
		}
		if strings.HasSuffix(m, "[*]") {
			e, err := parseSpec(strings.TrimSuffix(m, "[*]"))
			if err != nil {
				panic(toolErr("modifies %q: %v", m, err))
			}
			mv := psc.eval(e)
			if mt, ok := mv.T.Underlying().(*types.Map); ok {
				if k == "MD:"+mapTypeName(mt) || k == "MV:"+mapTypeName(mt) {
					mapObjs = append(mapObjs, mv.S)
				}
			}
			continue
		}
		if pv := c.pkgVarKey(m); pv != "" {
			if k == pv {
				return true, nil, nil
			}
			continue
		}
		e, err := parseSpec(m)
		if err != nil {
			panic(toolErr("modifies %q: %v", m, err))
		}
		f, ok := e.(*SField)
		if !ok {
			panic(toolErr("modifies %q: bad designator", m))
		}
		if n := sc.typeDesignator(f.X); n != nil {
			if k == fieldKey(n, f.Name) {
				return true, nil, nil
			}
			continue
		}
		base := psc.eval(f.X)
		if n, _, isPtr := derefNamedStruct(base.T); n != nil && isPtr && k == fieldKey(n, f.Name) {
			locs = append(locs, base.S)
		}
	}
	return false, locs, mapObjs
}
