package main

// SMT sorts, terms and the declaration registry.
//
// Encoding (see DESIGN.md §2.3):
//   Int   : every Go integer type (mathematical; range facts are assumed where
//           values enter, no-wrap obligations where `overflow checked`)
//   Bool  : bool
//   V     : one uninterpreted sort for every reference-like or opaque value:
//           pointers, maps, channels, funcs, strings, interface values,
//           structs of packages outside the module.  nil is the constant nilV.
//   S_*   : one SMT datatype per struct type of the module used by value
//   Sl_*  : slices: datatype (arr: Array Int elem, off: Int, len: Int)
//   (Array K X): ghost sets / maps and the heap arrays

import (
	"fmt"
	"go/types"
	"sort"
	"strings"
)

type SortKind int

const (
	KInt SortKind = iota
	KBool
	KV
	KStruct
	KSlice
	KArray
)

type FieldInfo struct {
	Name string
	Sort *Sort
	Type types.Type
}

type Sort struct {
	Kind   SortKind
	Name   string // SMT name
	Key    *Sort  // KArray
	Elem   *Sort  // KArray value / KSlice elem
	Fields []FieldInfo
	ElemGo types.Type // slice element go type
}

var (
	sInt  = &Sort{Kind: KInt, Name: "Int"}
	sBool = &Sort{Kind: KBool, Name: "Bool"}
	sV    = &Sort{Kind: KV, Name: "V"}
)

func (s *Sort) SMT() string {
	if s.Kind == KArray {
		return "(Array " + s.Key.SMT() + " " + s.Elem.SMT() + ")"
	}
	return s.Name
}

func arraySort(k, v *Sort) *Sort { return &Sort{Kind: KArray, Key: k, Elem: v} }

func sameSort(a, b *Sort) bool { return a.SMT() == b.SMT() }

type Term struct {
	S    string
	Sort *Sort
	T    types.Type // Go type when known (nil for pure ghost terms)
	Cell bool       // st.vars only: the local's address was taken; S is the reference of its heap cell (T = pointer type)
}

func mkT(s string, so *Sort, t types.Type) Term { return Term{S: s, Sort: so, T: t} }

// Registry of everything a query must declare.
type Decls struct {
	modPath   string
	consts    map[string]*Sort
	constOrd  []string
	dtypes    map[string]*Sort // struct + slice datatypes
	dtOrd     []string
	funs      map[string]string // name -> full declare-fun line
	funOrd    []string
	axioms    []string // background axioms (closed formulas); included in a query iff their trigger symbol occurs in it
	axiomName []string
	axiomTrig []string
	structOf  map[string]*Sort // go type string -> sort
	fresh     int
	strLits   map[string]string
	strOrd    []string
	typeTags  map[string]int
	opaque    map[string]bool // qualified type names forced opaque
	transparent map[string]bool // dependency struct types whose fields are modelled
}

func newDecls(modPath string) *Decls {
	return &Decls{modPath: modPath, consts: map[string]*Sort{}, dtypes: map[string]*Sort{}, funs: map[string]string{},
		structOf: map[string]*Sort{}, strLits: map[string]string{}, typeTags: map[string]int{}, opaque: map[string]bool{}, transparent: map[string]bool{}}
}

func sanitize(s string) string {
	var b strings.Builder
	for _, r := range s {
		switch {
		case r >= 'a' && r <= 'z', r >= 'A' && r <= 'Z', r >= '0' && r <= '9', r == '_', r == '!', r == '.':
			b.WriteRune(r)
		case r == '*':
			b.WriteString("ptr_")
		case r == '[':
			b.WriteString("_of_")
		case r == ']':
			b.WriteString("_")
		default:
			b.WriteRune('_')
		}
	}
	return b.String()
}

func (d *Decls) declConst(name string, s *Sort) {
	if _, ok := d.consts[name]; !ok {
		d.consts[name] = s
		d.constOrd = append(d.constOrd, name)
	}
}

func (d *Decls) freshConst(hint string, s *Sort) string {
	d.fresh++
	n := fmt.Sprintf("%s!%d", sanitize(hint), d.fresh)
	d.declConst(n, s)
	return n
}

func (d *Decls) declFun(name, args, ret string) {
	if _, ok := d.funs[name]; !ok {
		d.funs[name] = fmt.Sprintf("(declare-fun %s (%s) %s)", name, args, ret)
		d.funOrd = append(d.funOrd, name)
	}
}

func (d *Decls) addAxiom(name, f string) {
	for _, n := range d.axiomName {
		if n == name {
			return
		}
	}
	trig := name
	if i := strings.LastIndex(name, "."); i > 0 {
		trig = name[:i]
	}
	d.axiomName = append(d.axiomName, name)
	d.axioms = append(d.axioms, f)
	d.axiomTrig = append(d.axiomTrig, trig)
}

func (d *Decls) addAxiomTrig(name, f, trig string) {
	for _, n := range d.axiomName {
		if n == name {
			return
		}
	}
	d.axiomName = append(d.axiomName, name)
	d.axioms = append(d.axioms, f)
	d.axiomTrig = append(d.axiomTrig, trig)
}

// axiomsFor returns the axioms whose trigger symbol occurs in the query body.
func (d *Decls) axiomsFor(body string) string {
	var b strings.Builder
	included := make([]bool, len(d.axioms))
	// fixpoint: an included axiom may mention further spec functions
	for changed := true; changed; {
		changed = false
		for i, a := range d.axioms {
			if included[i] {
				continue
			}
			ok := false
			for _, t := range strings.Split(d.axiomTrig[i], "|") {
				if t != "" && strings.Contains(body, t) {
					ok = true
				}
			}
			if ok {
				included[i] = true
				changed = true
				body += "\n" + a
			}
		}
	}
	for i, a := range d.axioms {
		if included[i] {
			fmt.Fprintf(&b, "; axiom %s\n(assert %s)\n", d.axiomName[i], a)
		}
	}
	return b.String()
}

func (d *Decls) strLit(s string) string {
	if n, ok := d.strLits[s]; ok {
		return n
	}
	n := fmt.Sprintf("str!%d", len(d.strLits))
	d.strLits[s] = n
	d.strOrd = append(d.strOrd, s)
	d.declConst(n, sV)
	return n
}

func (d *Decls) typeTag(t types.Type) int {
	k := types.TypeString(t, nil)
	if n, ok := d.typeTags[k]; ok {
		return n
	}
	n := len(d.typeTags) + 1
	d.typeTags[k] = n
	return n
}

func typeShortName(t types.Type) string {
	return sanitize(types.TypeString(types.Unalias(t), func(p *types.Package) string { return p.Name() }))
}

func (d *Decls) inModule(p *types.Package) bool {
	return p != nil && (p.Path() == d.modPath || strings.HasPrefix(p.Path(), d.modPath+"/"))
}

// modelled: struct types whose fields are modelled (per-field heap arrays / datatypes): the
// module's own structs unless declared opaque, and dependency structs declared transparent.
func (d *Decls) modelled(n *types.Named) bool {
	if n == nil || n.Obj().Pkg() == nil {
		return false
	}
	q := n.Obj().Pkg().Name() + "." + n.Obj().Name()
	if d.opaque[q] {
		return false
	}
	return d.inModule(n.Obj().Pkg()) || d.transparent[q]
}

// sortOf maps a Go type to its SMT sort.
func (d *Decls) sortOf(t types.Type) *Sort {
	switch u := t.(type) {
	case *types.Named:
		if st, ok := u.Underlying().(*types.Struct); ok {
			if !d.modelled(u) {
				return sV
			}
			return d.structSort(u, st)
		}
		return d.sortOf(u.Underlying())
	case *types.Alias:
		return d.sortOf(types.Unalias(t))
	case *types.Basic:
		switch {
		case u.Info()&types.IsInteger != 0:
			return sInt
		case u.Info()&types.IsBoolean != 0:
			return sBool
		case u.Kind() == types.UntypedNil:
			return sV
		}
		return sV
	case *types.Pointer, *types.Map, *types.Chan, *types.Signature, *types.Interface:
		return sV
	case *types.Slice:
		return d.sliceSort(u.Elem())
	case *types.Struct:
		return sV
	case *types.Array:
		return sV
	case *types.TypeParam:
		return sV
	case *types.Tuple:
		return sV
	}
	return sV
}

func (d *Decls) structSort(n *types.Named, st *types.Struct) *Sort {
	key := types.TypeString(n, nil)
	if s, ok := d.structOf[key]; ok {
		return s
	}
	s := &Sort{Kind: KStruct, Name: "S_" + sanitize(n.Obj().Pkg().Name()+"_"+n.Obj().Name())}
	d.structOf[key] = s // break cycles (recursive value types are opaque in practice)
	for i := 0; i < st.NumFields(); i++ {
		f := st.Field(i)
		s.Fields = append(s.Fields, FieldInfo{f.Name(), d.sortOf(f.Type()), f.Type()})
	}
	d.dtypes[s.Name] = s
	d.dtOrd = append(d.dtOrd, s.Name)
	return s
}

func (d *Decls) sliceSort(elem types.Type) *Sort {
	es := d.sortOf(elem)
	return d.sliceSortOf(es, elem)
}

func (d *Decls) sliceSortOf(es *Sort, elem types.Type) *Sort {
	name := "Sl_" + sanitize(es.SMT())
	if s, ok := d.dtypes[name]; ok {
		return s
	}
	s := &Sort{Kind: KSlice, Name: name, Elem: es, ElemGo: elem}
	d.dtypes[name] = s
	d.dtOrd = append(d.dtOrd, name)
	return s
}

func (s *Sort) fieldIndex(name string) int {
	for i, f := range s.Fields {
		if f.Name == name {
			return i
		}
	}
	return -1
}

func (s *Sort) sel(field string) string { return s.Name + "." + field }
func (s *Sort) ctor() string            { return "mk." + s.Name }

// zero value term of a sort
func (d *Decls) zero(s *Sort) string {
	switch s.Kind {
	case KInt:
		return "0"
	case KBool:
		return "false"
	case KV:
		return "nilV"
	case KStruct:
		if len(s.Fields) == 0 {
			return s.ctor()
		}
		var parts []string
		for _, f := range s.Fields {
			parts = append(parts, d.zero(f.Sort))
		}
		return "(" + s.ctor() + " " + strings.Join(parts, " ") + ")"
	case KSlice:
		return fmt.Sprintf("(%s ((as const (Array Int %s)) %s) 0 0)", s.ctor(), s.Elem.SMT(), d.zero(s.Elem))
	case KArray:
		return fmt.Sprintf("((as const %s) %s)", s.SMT(), d.zero(s.Elem))
	}
	panic("zero: bad sort")
}

// prelude emits all declarations.
func (d *Decls) prelude() string {
	var b strings.Builder
	b.WriteString("(declare-sort V 0)\n(declare-const nilV V)\n")
	// datatypes in dependency order: emit in creation order but make sure field sorts come first.
	emitted := map[string]bool{}
	var emit func(name string)
	emit = func(name string) {
		if emitted[name] {
			return
		}
		emitted[name] = true
		s := d.dtypes[name]
		var deps func(x *Sort)
		deps = func(x *Sort) {
			switch x.Kind {
			case KStruct, KSlice:
				emit(x.Name)
			case KArray:
				deps(x.Key)
				deps(x.Elem)
			}
		}
		if s.Kind == KStruct {
			for _, f := range s.Fields {
				deps(f.Sort)
			}
			var fs []string
			for _, f := range s.Fields {
				fs = append(fs, fmt.Sprintf("(%s %s)", s.sel(f.Name), f.Sort.SMT()))
			}
			fmt.Fprintf(&b, "(declare-datatypes ((%s 0)) (((%s %s))))\n", s.Name, s.ctor(), strings.Join(fs, " "))
		} else {
			deps(s.Elem)
			fmt.Fprintf(&b, "(declare-datatypes ((%s 0)) (((%s (%s.arr (Array Int %s)) (%s.off Int) (%s.len Int)))))\n",
				s.Name, s.ctor(), s.Name, s.Elem.SMT(), s.Name, s.Name)
		}
	}
	for _, n := range d.dtOrd {
		emit(n)
	}
	for _, n := range d.funOrd {
		b.WriteString(d.funs[n])
		b.WriteString("\n")
	}
	for _, n := range d.constOrd {
		fmt.Fprintf(&b, "(declare-const %s %s)\n", n, d.consts[n].SMT())
	}
	if len(d.strOrd) > 0 {
		var names []string
		for _, s := range d.strOrd {
			names = append(names, d.strLits[s])
		}
		sort.Strings(names)
		if len(names) > 1 {
			fmt.Fprintf(&b, "(assert (distinct nilV %s))\n", strings.Join(names, " "))
		}
	}
	return b.String()
}

// helpers to build terms
func sAnd(xs ...string) string {
	var ys []string
	for _, x := range xs {
		if x == "true" {
			continue
		}
		ys = append(ys, x)
	}
	if len(ys) == 0 {
		return "true"
	}
	if len(ys) == 1 {
		return ys[0]
	}
	return "(and " + strings.Join(ys, " ") + ")"
}
func sOr(xs ...string) string {
	if len(xs) == 0 {
		return "false"
	}
	if len(xs) == 1 {
		return xs[0]
	}
	return "(or " + strings.Join(xs, " ") + ")"
}
func sNot(x string) string {
	if x == "true" {
		return "false"
	}
	if x == "false" {
		return "true"
	}
	if strings.HasPrefix(x, "(not ") && strings.HasSuffix(x, ")") && balanced(x[5:len(x)-1]) {
		return x[5 : len(x)-1]
	}
	return "(not " + x + ")"
}
// balanced: s is one complete s-expression or atom
func balanced(s string) bool {
	if s == "" {
		return false
	}
	if s[0] != '(' {
		return !strings.ContainsAny(s, " ()")
	}
	depth := 0
	for i, ch := range s {
		if ch == '(' {
			depth++
		}
		if ch == ')' {
			depth--
			if depth == 0 && i != len(s)-1 {
				return false
			}
		}
	}
	return depth == 0
}

func sImp(a, b string) string  { return "(=> " + a + " " + b + ")" }
func sEq(a, b string) string   { return "(= " + a + " " + b + ")" }
func sSel(a, i string) string  { return "(select " + a + " " + i + ")" }
func sSto(a, i, v string) string { return "(store " + a + " " + i + " " + v + ")" }
func sIte(c, a, b string) string { return "(ite " + c + " " + a + " " + b + ")" }
func sApp(f string, args ...string) string {
	if len(args) == 0 {
		return f
	}
	return "(" + f + " " + strings.Join(args, " ") + ")"
}
