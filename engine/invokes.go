package main

import (
	"go/ast"
	"go/token"
	"go/types"
	"strings"
)

// runInvokes executes the `invokes PARAM(NAME)` steps of a callee contract at a call site: the closure
// literal passed for PARAM is run inline, once, on a freshly allocated object bound to NAME (visible to
// the contract's ensures), after the ghost initialisations of the clause. This is how the effect of a
// builder-style higher-order dependency ("calls your closure with a new builder") is carried into the
// caller's proof without trusting anything about the closure: its body is the real code.
func (c *FnCtx) runInvokes(st *State, fc *FuncContract, sig *types.Signature, env map[string]Term, pkg interface{}, pre *State, pos token.Pos) {
	for _, iv := range fc.Invokes {
		idx := -1
		for i := 0; i < sig.Params().Len(); i++ {
			name := sig.Params().At(i).Name()
			if i < len(fc.Params) {
				name = fc.Params[i]
			}
			if name == iv.Param {
				idx = i
			}
		}
		if idx < 0 || idx >= len(c.curCallExprs) {
			panic(toolErr("invokes %s: no such parameter in %s", iv.Param, fc.Key))
		}
		lit, ok := ast.Unparen(c.curCallExprs[idx]).(*ast.FuncLit)
		if !ok {
			panic(unsup("invokes %s of %s: the argument at %s is not a function literal", iv.Param, fc.Key, c.pos(pos)))
		}
		fi := c.e.funcs[c.e.litKey[lit]]
		if fi == nil || fi.Sig.Params().Len() != 1 {
			panic(unsup("invokes %s of %s: closure with one parameter expected", iv.Param, fc.Key))
		}
		pt := fi.Sig.Params().At(0).Type()
		b := Term{S: c.newRef(st, iv.Name), Sort: sV, T: pt}
		env[iv.Name] = b
		sc := &SpecCtx{c: c, pkg: c.fi.Pkg, env: env, st: st, old: pre}
		for _, u := range iv.Init {
			g := c.e.ghostVar(u.Target)
			if g == nil {
				panic(toolErr("invokes init of unknown ghost %s in %s", u.Target, fc.Key))
			}
			v := sc.eval(u.Val)
			c.heapSet(st, "G:"+u.Target, Term{S: v.S, Sort: g.Sort})
		}
		saved := c.curCallExprs
		savedA := c.curCallArgs
		c.inlineCall(st, fi, Term{}, []Term{b}, pos)
		c.curCallExprs = saved
		c.curCallArgs = savedA
	}
}

// pkgVarKey: heap key of a package-level variable of the function's package named by a bare identifier
// in a modifies clause ("" when m is not one).
func (c *FnCtx) pkgVarKey(m string) string {
	for _, r := range m {
		if !(r == '_' || r >= '0' && r <= '9' || r >= 'a' && r <= 'z' || r >= 'A' && r <= 'Z') {
			return ""
		}
	}
	if c.fi == nil || c.fi.Pkg == nil || c.fi.Pkg.Types == nil {
		return ""
	}
	if v, ok := c.fi.Pkg.Types.Scope().Lookup(m).(*types.Var); ok {
		return "PV:" + v.Pkg().Path() + "." + v.Name()
	}
	return ""
}

// axiomsForHide is axiomsFor minus the axiom families a function's contract hides (`hide card`): the
// symbols stay uninterpreted in that function's queries. Hiding axioms only weakens the assumptions.
func (d *Decls) axiomsForHide(body string, hide []string) string {
	if len(hide) == 0 {
		return d.axiomsFor(body)
	}
	hidden := func(name string) bool {
		for _, h := range hide {
			if len(name) >= len(h)+1 && name[:len(h)+1] == h+"." {
				return true
			}
		}
		return false
	}
	included := make([]bool, len(d.axioms))
	for changed := true; changed; {
		changed = false
		for i, a := range d.axioms {
			if included[i] || hidden(d.axiomName[i]) {
				continue
			}
			ok := false
			for _, t := range splitBar(d.axiomTrig[i]) {
				if t != "" && strings.Contains(body, t) {
					ok = true
				}
			}
			if ok {
				included[i] = true
				changed = true
				body += "\n" + a
			}
		}
	}
	out := ""
	for i, a := range d.axioms {
		if included[i] {
			out += "; axiom " + d.axiomName[i] + "\n(assert " + a + ")\n"
		}
	}
	return out
}

func splitBar(s string) []string {
	var out []string
	cur := ""
	for _, r := range s {
		if r == '|' {
			out = append(out, cur)
			cur = ""
		} else {
			cur += string(r)
		}
	}
	return append(out, cur)
}
