package main

import (
	"fmt"
	"go/types"
)

// Typed references (`typedrefs` in a package's contract file switches them on for the run).
//
// All reference-like Go values share the SMT sort V. With typed references every allocation records the dynamic
// type of the new reference (dyntype(r) = tag of *T / map[K]V), and every value read at a static pointer-to-struct or
// map type is nil or carries that tag - which is what Go's type system guarantees. Invariants quantified over "all
// objects of type T" can then say so (dyntype(t) == typetag("*T")), and allocating a map or an object of another type
// cannot falsify them.
func (c *FnCtx) refTag(t types.Type) (string, bool) {
	switch t.Underlying().(type) {
	case *types.Pointer, *types.Map, *types.Chan:
		c.e.d.declFun("dyntype", "V", "Int")
		return fmt.Sprint(c.e.d.typeTag(types.Unalias(t).Underlying())), true
	}
	return "", false
}

func (c *FnCtx) tagRef(st *State, r Term) {
	if !c.typedRefs() || r.T == nil {
		return
	}
	if tag, ok := c.refTag(r.T); ok {
		st.assume(sEq(sApp("dyntype", r.S), tag))
	}
}

// typedRefs: the function being verified belongs to a package that declared `typedrefs`.
func (c *FnCtx) typedRefs() bool {
	if !c.e.typedRefs || c.fi == nil || c.fi.Pkg == nil {
		return false
	}
	return c.e.typedPkgs[c.fi.Pkg.PkgPath]
}
