package main

import (
	"fmt"
	"go/token"
	"go/types"
	"strings"
)

// lenient: the function under contract allows callees without a contract to be abstracted
// (results havoc, no effect on modelled state); every such callee is listed in the trusted base.
func (c *FnCtx) lenient() bool {
	if c.fc != nil && c.fc.Lenient {
		return true
	}
	return c.lenientOuter
}

func lastSeg(k string) string {
	if i := strings.LastIndexAny(k, "$."); i >= 0 {
		return k[i+1:]
	}
	return k
}

// callSiteAsserts emits the caller's `callsite` assertions that match this callee. The
// assertion is evaluated in the caller's scope (locals, old() = caller entry) with the
// callee's receiver (self) and parameter names bound to the actual arguments.
func (c *FnCtx) callSiteAsserts(st *State, key string, sig *types.Signature, recv Term, recvVar *types.Var, args []Term, pos token.Pos) {
	if c.fc == nil || len(c.fc.CallSites) == 0 {
		return
	}
	for i, cs := range c.fc.CallSites {
		if cs.ArgIs != "" {
			// select call sites by the source text of an argument (e.g. a freshly built error value)
			hit := false
			for _, a := range c.curCallArgs {
				if strings.HasPrefix(a, cs.ArgIs) {
					hit = true
				}
			}
			if !hit {
				continue
			}
		}
		if !(key == cs.Callee || strings.HasSuffix(key, "."+cs.Callee) || strings.HasSuffix(key, "/"+cs.Callee) || strings.HasSuffix(key, "$"+cs.Callee) || strings.HasSuffix(key, cs.Callee)) {
			continue
		}
		sc := c.specCtx(st)
		if recvVar != nil {
			sc.env["self"] = recv
			if n := recvVar.Name(); n != "" && n != "_" {
				if _, clash := sc.env[n]; !clash {
					sc.env[n] = recv
				}
			}
		}
		for j := 0; j < sig.Params().Len() && j < len(args); j++ {
			n := sig.Params().At(j).Name()
			sc.env[fmt.Sprintf("arg%d", j)] = args[j]
			if n != "" && n != "_" {
				sc.env["$"+n] = args[j]
				if _, clash := sc.env[n]; !clash {
					sc.env[n] = args[j]
				}
			}
		}
		guard := "true"
		if cs.When != nil {
			g := sc.eval(cs.When)
			sc.want(g, sBool, "callsite guard")
			guard = g.S
		}
		for _, cj := range sc.evalConjuncts(cs.Assert, "") {
			goal := cj.Term.S
			if guard != "true" {
				goal = sImp(guard, goal)
			}
			c.oblige(st, "callsite", fmt.Sprintf("%s/assert%d%s", lastSeg(cs.Callee), i+1, cj.Path), pos, goal, "at every call of "+cs.Callee+": "+cj.Src)
			st.assume(goal) // assert-then-assume
		}
		if c.matchedCallSites == nil {
			c.matchedCallSites = map[int]bool{}
		}
		c.matchedCallSites[i] = true
	}
}

// findNamedStruct resolves a bare struct type name: first in the preferred package, then among
// `transparent` dependency structs, then uniquely among the loaded module packages.
func (e *Engine) findNamedStruct(name string, prefer *types.Package) *types.Named {
	look := func(p *types.Package) *types.Named {
		if p == nil {
			return nil
		}
		if obj := p.Scope().Lookup(name); obj != nil {
			if tn, ok := obj.(*types.TypeName); ok {
				if n, ok := tn.Type().(*types.Named); ok {
					if _, ok := n.Underlying().(*types.Struct); ok {
						return n
					}
				}
			}
		}
		return nil
	}
	if n := look(prefer); n != nil {
		return n
	}
	for q := range e.d.transparent {
		i := strings.LastIndex(q, ".")
		if i < 0 || q[i+1:] != name {
			continue
		}
		for _, p := range e.pkgs {
			if p.Types != nil && p.Types.Name() == q[:i] {
				if n := look(p.Types); n != nil {
					return n
				}
			}
		}
	}
	var hits []*types.Named
	for _, p := range e.pkgs {
		if p.Types != nil && e.d.inModule(p.Types) {
			if n := look(p.Types); n != nil {
				hits = append(hits, n)
			}
		}
	}
	if len(hits) == 1 {
		return hits[0]
	}
	return nil
}

// splitTop splits at commas that are not nested in brackets.
func splitTop(s string) []string {
	var out []string
	depth, start := 0, 0
	for i, ch := range s {
		switch ch {
		case '(', '[', '{':
			depth++
		case ')', ']', '}':
			depth--
		case ',':
			if depth == 0 {
				out = append(out, s[start:i])
				start = i + 1
			}
		}
	}
	return append(out, s[start:])
}

// allmapsType evaluates the expression inside allmaps(...) to find the map type it designates.
func (c *FnCtx) allmapsType(m string, sc *SpecCtx, pre *State) *types.Map {
	inner := strings.TrimSuffix(strings.TrimPrefix(m, "allmaps("), ")")
	if strings.HasPrefix(inner, "\"") && strings.HasSuffix(inner, "\"") {
		// a Go map type written out
		t := c.e.resolveGoType(strings.Trim(inner, "\""), sc.pkg, sc.pos)
		if mt, ok := t.Underlying().(*types.Map); ok {
			return mt
		}
		panic(toolErr("modifies %q: not a map type", m))
	}
	e, err := parseSpec(inner)
	if err != nil {
		panic(toolErr("modifies %q: %v", m, err))
	}
	psc := *sc
	psc.st = pre
	v := psc.eval(e)
	if v.T != nil {
		if mt, ok := v.T.Underlying().(*types.Map); ok {
			return mt
		}
	}
	panic(toolErr("modifies %q: not a map-typed expression", m))
}
