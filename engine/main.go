package main

import (
	"flag"
	"fmt"
	"os"
	"path/filepath"
	"sort"
	"strings"
)

func usage() {
	fmt.Fprintln(os.Stderr, `usage:
  gsv fn  [-v] [-keep] <pkg-pattern,...> <funcKeyRelativeOrFull,...>   verify functions, print obligations
  gsv check <PROPERTY-ID> [--tier quick|thorough]                     run the pack of a property
  gsv replay <path>                                                   print a replay file
  gsv selftest [--only NAME]                                          must-fail / must-pass corpus`)
	os.Exit(2)
}

func main() {
	if len(os.Args) < 2 {
		usage()
	}
	repo := os.Getenv("GSV_REPO")
	if repo == "" {
		repo = "/repo"
	}
	verifDir := os.Getenv("GSV_VERIF")
	if verifDir == "" {
		verifDir = "/verif"
	}
	// go/packages must find the toolchain that can build /repo
	os.Setenv("PATH", "/opt/veriftools/go1.26.8/bin:"+os.Getenv("PATH"))
	os.Setenv("GOTOOLCHAIN", "local")
	os.Setenv("GOFLAGS", "-mod=mod")
	os.Setenv("GOPROXY", "off")
	os.Setenv("GOSUMDB", "off")
	switch os.Args[1] {
	case "fn":
		fs := flag.NewFlagSet("fn", flag.ExitOnError)
		verbose := fs.Bool("v", false, "print failed queries")
		keep := fs.String("keep", "", "directory to keep query files")
		timeout := fs.Int("t", 10, "solver timeout (s)")
		all := fs.Bool("all", false, "run all back ends")
		fs.Parse(os.Args[2:])
		if fs.NArg() < 2 {
			usage()
		}
		os.Exit(cmdFn(repo, verifDir, strings.Split(fs.Arg(0), ","), strings.Split(fs.Arg(1), ","), *verbose, *keep, *timeout, *all))
	case "check":
		fs := flag.NewFlagSet("check", flag.ExitOnError)
		tier := fs.String("tier", "", "quick|thorough")
		fs.Parse(os.Args[3:])
		if len(os.Args) < 3 {
			usage()
		}
		t := *tier
		if t == "" {
			t = os.Getenv("VERIF_TIER")
		}
		if t == "" {
			t = "quick"
		}
		os.Exit(cmdCheck(repo, verifDir, os.Args[2], t))
	case "replay":
		if len(os.Args) < 3 {
			usage()
		}
		b, err := os.ReadFile(os.Args[2])
		if err != nil {
			fmt.Fprintln(os.Stderr, err)
			os.Exit(2)
		}
		os.Stdout.Write(b)
		os.Exit(cmdReplay(repo, verifDir, os.Args[2]))
	case "selftest":
		fs := flag.NewFlagSet("selftest", flag.ExitOnError)
		only := fs.String("only", "", "run only this case")
		fs.Parse(os.Args[2:])
		os.Exit(cmdSelftest(verifDir, *only))
	default:
		usage()
	}
}

func cmdFn(repo, verifDir string, pkgs, keys []string, verbose bool, keep string, timeout int, all bool) int {
	e, err := loadEngine(repo, verifDir, pkgs)
	if err != nil {
		fmt.Fprintln(os.Stderr, "load:", err)
		return 2
	}
	e.timeoutS = timeout
	work := keep
	if work == "" {
		work, _ = os.MkdirTemp("", "gsv")
		defer os.RemoveAll(work)
	}
	rc := 0
	for _, k := range keys {
		full := e.resolveKey(k)
		if k == "ALL" {
			var ks []string
			for key, fc := range e.contracts {
				if e.funcs[key] != nil && !fc.Assumed {
					ks = append(ks, key)
				}
			}
			sort.Strings(ks)
			for _, kk := range ks {
				if r := runOne(e, kk, work, verbose, all); r > rc {
					rc = r
				}
			}
			continue
		}
		if r := runOne(e, full, work, verbose, all); r > rc {
			rc = r
		}
	}
	return rc
}

func (e *Engine) resolveKey(k string) string {
	if _, ok := e.contracts[k]; ok {
		return k
	}
	var cands []string
	for key := range e.contracts {
		if strings.HasSuffix(key, "."+k) || strings.HasSuffix(key, "/"+k) {
			cands = append(cands, key)
		}
	}
	if len(cands) == 1 {
		return cands[0]
	}
	return k
}

func runOne(e *Engine, key, work string, verbose bool, all bool) int {
	res := e.verifyFunc(key)
	fmt.Printf("== %s: %d obligations", key, len(res.Obls))
	if res.Err != nil {
		fmt.Printf("  ERROR: %v\n", res.Err)
		return 2
	}
	fmt.Println()
	var stats SolveStats
	e.solveAll(res.Obls, filepath.Join(work, sanitize(key)), &stats, all)
	rc := 0
	byName := map[string][]*Obligation{}
	var names []string
	for _, o := range res.Obls {
		if _, ok := byName[o.Name]; !ok {
			names = append(names, o.Name)
		}
		byName[o.Name] = append(byName[o.Name], o)
	}
	for _, n := range names {
		ok := true
		var bad *Obligation
		tot := 0.0
		for _, o := range byName[n] {
			tot += o.Seconds
			if !o.passed() {
				ok = false
				if bad == nil {
					bad = o
				}
			}
		}
		if ok {
			fmt.Printf("   ok   %-60s x%d  %.2fs\n", n, len(byName[n]), tot)
		} else {
			rc = 1
			fmt.Printf("   FAIL %-60s x%d  %s [%s] %s\n        %s\n", n, len(byName[n]), bad.Status, bad.Backend, bad.Pos, bad.Desc)
			if len(bad.Model) > 0 {
				var ks []string
				for k := range bad.Model {
					ks = append(ks, k)
				}
				sort.Strings(ks)
				for _, k := range ks {
					fmt.Printf("        %s = %s\n", k, bad.Model[k])
				}
			}
			if verbose {
				f := filepath.Join(work, sanitize(n)+".smt2")
				os.WriteFile(f, []byte(bad.Query), 0o644)
				fmt.Printf("        query: %s\n", f)
			}
		}
	}
	// slowest single queries (margin against the solver timeout)
	slow := append([]*Obligation(nil), res.Obls...)
	sort.Slice(slow, func(i, j int) bool { return slow[i].Seconds > slow[j].Seconds })
	for i := 0; i < 3 && i < len(slow); i++ {
		if slow[i].Seconds > 2 {
			fmt.Printf("   slow %-60s %.1fs [%s]\n", slow[i].Name, slow[i].Seconds, slow[i].Backend)
		}
	}
	for be, s := range stats.ByBackend {
		fmt.Printf("   backend %-7s calls=%d discharged=%d %.2fs\n", be, s.Calls, s.Discharged, s.Seconds)
	}
	return rc
}
