package main

// Effect contracts checked by a typed call scan (DESIGN.md §2.7): a package-level annotation
// "no function of these packages calls X" is discharged by visiting every call expression of every
// function (and function literal) of the packages and resolving its static or interface callee.
// Each scanned function contributes one obligation per forbidden callee.

import (
	"fmt"
	"go/ast"
	"go/types"
	"sort"
	"strings"
)

type EffectRule struct {
	Packages []string `json:"packages"` // import paths relative to the module, e.g. "responsemanager"
	Forbid   []string `json:"forbid"`   // callee key suffixes, e.g. "responseassembler.ResponseBuilder.SendResponse"
	Except   []string `json:"except"`   // function key suffixes exempt from the rule
	Why      string   `json:"why"`
}

func (e *Engine) effectObligations(rules []EffectRule) []*Obligation {
	var out []*Obligation
	for _, r := range rules {
		for _, rel := range r.Packages {
			p := e.pkgs[modPath+"/"+rel]
			if rel == "." || rel == "" {
				p = e.pkgs[modPath]
			}
			if p == nil || p.Syntax == nil {
				out = append(out, &Obligation{Name: "effect:package-loaded", Fn: modPath + "/" + rel, Kind: "effect", Desc: "package is loaded for the effect scan", Goal: "false", Status: "error", Backend: "ast-scan"})
				continue
			}
			var keys []string
			for k, fi := range e.funcs {
				if fi.Pkg == p {
					keys = append(keys, k)
				}
			}
			sort.Strings(keys)
			for _, k := range keys {
				fi := e.funcs[k]
				if strings.HasSuffix(fi.Pkg.Fset.Position(fi.Body.Pos()).Filename, "_test.go") {
					continue
				}
				exempt := false
				for _, ex := range r.Except {
					if strings.HasSuffix(k, ex) {
						exempt = true
					}
				}
				if exempt {
					continue
				}
				hits := map[string]string{}
				c := &FnCtx{e: e, fi: fi, info: p.TypesInfo}
				ast.Inspect(fi.Body, func(n ast.Node) bool {
					if _, isLit := n.(*ast.FuncLit); isLit && n != ast.Node(fi.Lit) {
						return false // literals are functions of their own
					}
					call, ok := n.(*ast.CallExpr)
					if !ok {
						return true
					}
					if tv, ok := p.TypesInfo.Types[call.Fun]; ok && tv.IsType() {
						return true
					}
					key, _ := c.calleeKey(call)
					for _, f := range r.Forbid {
						if key != "" && (strings.HasSuffix(key, f) || strings.HasSuffix(key, "/"+f)) {
							hits[f] = c.pos(call.Pos())
						}
					}
					return true
				})
				for _, f := range r.Forbid {
					o := &Obligation{Name: "effect:no-call(" + f + ")", Fn: k, Kind: "effect", Backend: "ast-scan",
						Desc: fmt.Sprintf("effect contract: %s never calls %s (%s)", shortFn(k), f, r.Why), Pos: c.pos(fi.Body.Pos()), Goal: "true", Status: "unsat"}
					if at, bad := hits[f]; bad {
						o.Status = "sat"
						o.Raw = "forbidden call at " + at
						o.Desc += " — call found at " + at
						o.Pos = at
					}
					out = append(out, o)
				}
			}
		}
	}
	return out
}

var _ = types.Typ
