package main

// Effect contracts checked by a typed call scan (DESIGN.md §2.7): a package-level annotation
// "no function of these packages calls X" is discharged by visiting every call expression of every
// function (and function literal) of the packages and resolving its static or interface callee.
// Each scanned function contributes one obligation per forbidden callee.

import (
	"fmt"
	"go/ast"
	"go/types"
	"sort"
	"strings"
)

type EffectRule struct {
	Packages []string `json:"packages"` // import paths relative to the module, e.g. "responsemanager"
	Forbid   []string `json:"forbid"`   // callee key suffixes, e.g. "responseassembler.ResponseBuilder.SendResponse"
	ForbidWrites []string `json:"forbid_writes"` // "Type.field": fields no function outside Except may assign (encapsulation of an invariant's state)
	Except   []string `json:"except"`   // function key suffixes exempt from the rule
	Why      string   `json:"why"`
}

// RecoverFirst: an enclosure obligation for code that may panic (user-supplied functions called below): the named
// function's body starts with its deferred recover - only other defer statements may come before it - so every call the
// body makes afterwards runs under that recover.
type RecoverFirst struct {
	Function string `json:"function"` // key relative to the module, e.g. "ipldutil.traverser.start.func1"
	Why      string `json:"why"`
}

func (e *Engine) recoverFirstObligations(rules []RecoverFirst) []*Obligation {
	var out []*Obligation
	for _, r := range rules {
		key := modPath + "/" + r.Function
		fi := e.funcs[key]
		o := &Obligation{Name: "effect:recover-first", Fn: key, Kind: "effect", Backend: "ast-scan", Goal: "true", Status: "unsat",
			Desc: "enclosure: every call of " + r.Function + " runs under its deferred recover (" + r.Why + ")"}
		if fi == nil || fi.Body == nil {
			o.Status, o.Raw, o.Goal = "error", "function not found: "+key, "false"
			out = append(out, o)
			continue
		}
		c := &FnCtx{e: e, fi: fi, info: fi.Pkg.TypesInfo}
		o.Pos = c.pos(fi.Body.Pos())
		found := false
		for _, st := range fi.Body.List {
			ds, isDefer := st.(*ast.DeferStmt)
			if isDefer {
				if lit, ok := ast.Unparen(ds.Call.Fun).(*ast.FuncLit); ok && callsRecover(lit.Body, fi.Pkg.TypesInfo) {
					found = true
					break
				}
				continue // another deferred call: runs after the recover's function is registered? no - but it makes no call now
			}
			// a statement that runs before the recover is registered
			bad := ""
			ast.Inspect(st, func(n ast.Node) bool {
				if _, isLit := n.(*ast.FuncLit); isLit {
					return false
				}
				if call, ok := n.(*ast.CallExpr); ok && bad == "" {
					if tv, ok := fi.Pkg.TypesInfo.Types[call.Fun]; ok && tv.IsType() {
						return true
					}
					if id, ok := ast.Unparen(call.Fun).(*ast.Ident); ok {
						if _, isB := fi.Pkg.TypesInfo.Uses[id].(*types.Builtin); isB {
							return true
						}
					}
					bad = c.pos(call.Pos())
				}
				return true
			})
			if bad != "" {
				o.Status = "sat"
				o.Raw = "a call runs before the deferred recover is in place, at " + bad
				o.Desc += " — call outside the recover at " + bad
				o.Pos = bad
				break
			}
		}
		if !found && o.Status == "unsat" {
			o.Status = "sat"
			o.Raw = "no deferred function calling recover() at the top level of the body"
			o.Desc += " — no deferred recover found"
		}
		out = append(out, o)
	}
	return out
}

// Enclosed: a chain of functions from a goroutine root down to the function that runs user-supplied code; the
// obligation holds when at least one of them registers a deferred recover before making any call, so the user code
// runs under it whichever of them a maintainer chooses for it.
type Enclosed struct {
	Name  string   `json:"name"`
	Chain []string `json:"chain"` // keys relative to the module, root first
	Why   string   `json:"why"`
}

func (e *Engine) enclosedObligations(rules []Enclosed) []*Obligation {
	var out []*Obligation
	for _, r := range rules {
		last := modPath + "/" + r.Chain[len(r.Chain)-1]
		o := &Obligation{Name: "effect:enclosed(" + r.Name + ")", Fn: last, Kind: "effect", Backend: "ast-scan", Goal: "true", Status: "sat",
			Desc: "enclosure: user-supplied code reached through " + strings.Join(r.Chain, " -> ") + " runs under a recover registered by one of these functions before it makes any call (" + r.Why + ")",
			Raw:  "none of the functions on the chain starts with a deferred recover"}
		for _, rel := range r.Chain {
			sub := e.recoverFirstObligations([]RecoverFirst{{Function: rel}})
			if len(sub) == 1 && sub[0].Status == "unsat" {
				o.Status, o.Raw = "unsat", "recover registered first in "+rel
				o.Pos = sub[0].Pos
			}
			if o.Pos == "" && len(sub) == 1 {
				o.Pos = sub[0].Pos
			}
		}
		out = append(out, o)
	}
	return out
}

// NonBlockingSends: in the listed source files every channel send is a case of a select that has a default arm, so the
// goroutine running that code (a manager loop) can never wait on the receiver.
type NonBlockingSends struct {
	Files []string `json:"files"` // repository-relative file names
	Why   string   `json:"why"`
}

func (e *Engine) nonBlockingSendObligations(rules []NonBlockingSends) []*Obligation {
	var out []*Obligation
	for _, r := range rules {
		for _, rel := range r.Files {
			var keys []string
			for k, fi := range e.funcs {
				if fi.Body != nil && strings.HasSuffix(fi.Pkg.Fset.Position(fi.Body.Pos()).Filename, "/"+rel) {
					keys = append(keys, k)
				}
			}
			sort.Strings(keys)
			if len(keys) == 0 {
				out = append(out, &Obligation{Name: "effect:file-loaded(" + rel + ")", Fn: modPath + "/" + rel, Kind: "effect", Desc: "file is loaded for the send scan", Goal: "false", Status: "error", Backend: "ast-scan"})
			}
			for _, k := range keys {
				fi := e.funcs[k]
				c := &FnCtx{e: e, fi: fi, info: fi.Pkg.TypesInfo}
				o := &Obligation{Name: "effect:nonblocking-sends", Fn: k, Kind: "effect", Backend: "ast-scan", Goal: "true", Status: "unsat", Pos: c.pos(fi.Body.Pos()),
					Desc: "effect contract: every channel send in " + shortFn(k) + " is a select case with a default arm (" + r.Why + ")"}
				guarded := map[*ast.SendStmt]bool{}
				ast.Inspect(fi.Body, func(n ast.Node) bool {
					if _, isLit := n.(*ast.FuncLit); isLit && n != ast.Node(fi.Lit) {
						return false
					}
					if sel, ok := n.(*ast.SelectStmt); ok {
						hasDefault := false
						for _, cl := range sel.Body.List {
							if cl.(*ast.CommClause).Comm == nil {
								hasDefault = true
							}
						}
						if hasDefault {
							for _, cl := range sel.Body.List {
								if ss, ok := cl.(*ast.CommClause).Comm.(*ast.SendStmt); ok {
									guarded[ss] = true
								}
							}
						}
					}
					return true
				})
				ast.Inspect(fi.Body, func(n ast.Node) bool {
					if _, isLit := n.(*ast.FuncLit); isLit && n != ast.Node(fi.Lit) {
						return false
					}
					if ss, ok := n.(*ast.SendStmt); ok && !guarded[ss] && o.Status == "unsat" {
						o.Status = "sat"
						o.Raw = "a send that can block at " + c.pos(ss.Pos())
						o.Desc += " — blocking send at " + c.pos(ss.Pos())
						o.Pos = c.pos(ss.Pos())
					}
					return true
				})
				out = append(out, o)
			}
		}
	}
	return out
}

func callsRecover(body *ast.BlockStmt, info *types.Info) bool {
	hit := false
	ast.Inspect(body, func(n ast.Node) bool {
		if call, ok := n.(*ast.CallExpr); ok {
			if id, ok := ast.Unparen(call.Fun).(*ast.Ident); ok && id.Name == "recover" {
				if _, isB := info.Uses[id].(*types.Builtin); isB {
					hit = true
				}
			}
		}
		return true
	})
	return hit
}

func (e *Engine) effectObligations(rules []EffectRule) []*Obligation {
	var out []*Obligation
	for _, r := range rules {
		for _, rel := range r.Packages {
			p := e.pkgs[modPath+"/"+rel]
			if rel == "." || rel == "" {
				p = e.pkgs[modPath]
			}
			if p == nil || p.Syntax == nil {
				out = append(out, &Obligation{Name: "effect:package-loaded", Fn: modPath + "/" + rel, Kind: "effect", Desc: "package is loaded for the effect scan", Goal: "false", Status: "error", Backend: "ast-scan"})
				continue
			}
			var keys []string
			for k, fi := range e.funcs {
				if fi.Pkg == p {
					keys = append(keys, k)
				}
			}
			sort.Strings(keys)
			for _, k := range keys {
				fi := e.funcs[k]
				if strings.HasSuffix(fi.Pkg.Fset.Position(fi.Body.Pos()).Filename, "_test.go") {
					continue
				}
				exempt := false
				for _, ex := range r.Except {
					if strings.HasSuffix(k, ex) {
						exempt = true
					}
				}
				if exempt {
					continue
				}
				hits := map[string]string{}
				c := &FnCtx{e: e, fi: fi, info: p.TypesInfo}
				ast.Inspect(fi.Body, func(n ast.Node) bool {
					if _, isLit := n.(*ast.FuncLit); isLit && n != ast.Node(fi.Lit) {
						return false // literals are functions of their own
					}
					call, ok := n.(*ast.CallExpr)
					if !ok {
						return true
					}
					if tv, ok := p.TypesInfo.Types[call.Fun]; ok && tv.IsType() {
						return true
					}
					key, _ := c.calleeKey(call)
					for _, f := range r.Forbid {
						if key != "" && (strings.HasSuffix(key, f) || strings.HasSuffix(key, "/"+f)) {
							hits[f] = c.pos(call.Pos())
						}
					}
					return true
				})
				whits := map[string]string{}
				if len(r.ForbidWrites) > 0 {
					note := func(l ast.Expr) {
						for _, w := range writtenFields(p.TypesInfo, l) {
							for _, f := range r.ForbidWrites {
								if w == f {
									whits[f] = c.pos(l.Pos())
								}
							}
						}
					}
					ast.Inspect(fi.Body, func(n ast.Node) bool {
						if _, isLit := n.(*ast.FuncLit); isLit && n != ast.Node(fi.Lit) {
							return false
						}
						switch y := n.(type) {
						case *ast.AssignStmt:
							for _, l := range y.Lhs {
								note(l)
							}
						case *ast.IncDecStmt:
							note(y.X)
						}
						return true
					})
				}
				for _, f := range r.ForbidWrites {
					o := &Obligation{Name: "effect:no-write(" + f + ")", Fn: k, Kind: "effect", Backend: "ast-scan",
						Desc: fmt.Sprintf("effect contract: %s never assigns %s (%s)", shortFn(k), f, r.Why), Pos: c.pos(fi.Body.Pos()), Goal: "true", Status: "unsat"}
					if at, bad := whits[f]; bad {
						o.Status = "sat"
						o.Raw = "forbidden write at " + at
						o.Desc += " — write found at " + at
						o.Pos = at
					}
					out = append(out, o)
				}
				for _, f := range r.Forbid {
					o := &Obligation{Name: "effect:no-call(" + f + ")", Fn: k, Kind: "effect", Backend: "ast-scan",
						Desc: fmt.Sprintf("effect contract: %s never calls %s (%s)", shortFn(k), f, r.Why), Pos: c.pos(fi.Body.Pos()), Goal: "true", Status: "unsat"}
					if at, bad := hits[f]; bad {
						o.Status = "sat"
						o.Raw = "forbidden call at " + at
						o.Desc += " — call found at " + at
						o.Pos = at
					}
					out = append(out, o)
				}
			}
		}
	}
	return out
}

// writtenFields: the "Type.field" names an assignment to l writes: the last field of a selector path, plus every
// field before it that is reached without crossing a pointer afterwards (x.a.b = v with a a struct VALUE writes a too).
func writtenFields(info *types.Info, l ast.Expr) []string {
	sel, ok := ast.Unparen(l).(*ast.SelectorExpr)
	if !ok {
		if ix, ok := ast.Unparen(l).(*ast.IndexExpr); ok {
			// m[k] = v / s[i] = v on a field: the container field is what changes for slices (maps are references)
			if _, isMap := info.TypeOf(ix.X).Underlying().(*types.Map); !isMap {
				return writtenFields(info, ix.X)
			}
		}
		return nil
	}
	s, ok := info.Selections[sel]
	if !ok || s.Kind() != types.FieldVal {
		return nil
	}
	var out []string
	t := s.Recv()
	for _, ix := range s.Index() {
		n, stt, _ := derefNamedStruct(t)
		if n == nil {
			break
		}
		f := stt.Field(ix)
		if _, isPtr := f.Type().Underlying().(*types.Pointer); isPtr {
			out = out[:0] // what comes after is written through this pointer; the pointer field itself is not
			out = append(out, n.Obj().Name()+"."+f.Name())
			t = f.Type()
			continue
		}
		out = append(out, n.Obj().Name()+"."+f.Name())
		t = f.Type()
	}
	// the pointer field that was crossed last is only READ unless it is the final field
	idx := s.Index()
	if len(out) > 1 {
		n0, stt0, _ := derefNamedStruct(s.Recv())
		_ = n0
		_ = stt0
	}
	_ = idx
	return trimCrossed(info, s, out)
}

// trimCrossed drops a leading pointer field that was only dereferenced (x.p.f = v writes f, not p).
func trimCrossed(info *types.Info, s *types.Selection, out []string) []string {
	t := s.Recv()
	idx := s.Index()
	var res []string
	for i, ix := range idx {
		n, stt, _ := derefNamedStruct(t)
		if n == nil {
			break
		}
		f := stt.Field(ix)
		_, isPtr := f.Type().Underlying().(*types.Pointer)
		if isPtr && i < len(idx)-1 {
			res = res[:0] // crossed: later fields live in another object
		} else {
			res = append(res, n.Obj().Name()+"."+f.Name())
		}
		t = f.Type()
	}
	return res
}
