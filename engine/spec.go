package main

// Specification expression language: lexer, AST and parser.
//
// Grammar (lowest to highest precedence):
//   e ::= forall x T, y U :: e | exists ... :: e | let x := e in e
//       | e <==> e | e ==> e (right assoc) | e || e | e && e
//       | e (== != < <= > >= in) e | e (+ -) e | e (* / %) e
//       | !e | -e | postfix
//   postfix ::= atom { .name | [e] | [lo:hi] | (args) }
//   atom ::= ident | int | true | false | nil | "str" | ( e )
// Types inside quantifiers are raw token runs up to ',' or '::'.

import (
	"fmt"
	"strings"
	"unicode"
)

type SExpr interface{}

type (
	SIdent  struct{ Name string }
	SInt    struct{ Val string }
	SStr    struct{ Val string }
	SBool   struct{ Val bool }
	SNil    struct{}
	SUnary  struct {
		Op string
		X  SExpr
	}
	SBinary struct {
		Op   string
		L, R SExpr
	}
	SCall struct {
		Fun  string
		Args []SExpr
	}
	SField struct {
		X    SExpr
		Name string
	}
	SIndex struct{ X, I SExpr }
	SSlice struct{ X, Lo, Hi SExpr }
	SVar   struct{ Name, Type string }
	SQuant struct {
		Forall bool
		Vars   []SVar
		Pats   [][]SExpr // optional triggers: {e1, e2} {e3}
		Body   SExpr
	}
	SLet struct {
		Name string
		Val  SExpr
		Body SExpr
	}
)

type tok struct {
	k string // "id","int","str","op","eof"
	s string
}

func lexSpec(src string) ([]tok, error) {
	var out []tok
	i := 0
	rs := []rune(src)
	for i < len(rs) {
		c := rs[i]
		switch {
		case unicode.IsSpace(c):
			i++
		case unicode.IsLetter(c) || c == '_' || c == '$':
			j := i
			for j < len(rs) && (unicode.IsLetter(rs[j]) || unicode.IsDigit(rs[j]) || rs[j] == '_' || rs[j] == '$') {
				j++
			}
			out = append(out, tok{"id", string(rs[i:j])})
			i = j
		case unicode.IsDigit(c):
			j := i
			for j < len(rs) && (unicode.IsDigit(rs[j]) || rs[j] == '_') {
				j++
			}
			out = append(out, tok{"int", strings.ReplaceAll(string(rs[i:j]), "_", "")})
			i = j
		case c == '"':
			j := i + 1
			for j < len(rs) && rs[j] != '"' {
				j++
			}
			if j >= len(rs) {
				return nil, fmt.Errorf("unterminated string in spec %q", src)
			}
			out = append(out, tok{"str", string(rs[i+1 : j])})
			i = j + 1
		default:
			ops := []string{"<==>", "==>", "::", ":=", "==", "!=", "<=", ">=", "&&", "||", "<", ">", "+", "-", "*", "/", "%", "!", "(", ")", "[", "]", ",", ".", ":", "{", "}"}
			matched := false
			for _, op := range ops {
				if strings.HasPrefix(string(rs[i:]), op) {
					out = append(out, tok{"op", op})
					i += len([]rune(op))
					matched = true
					break
				}
			}
			if !matched {
				return nil, fmt.Errorf("bad character %q in spec %q", c, src)
			}
		}
	}
	out = append(out, tok{"eof", ""})
	return out, nil
}

type sparser struct {
	toks []tok
	p    int
	src  string
}

func parseSpec(src string) (e SExpr, err error) {
	toks, err := lexSpec(src)
	if err != nil {
		return nil, err
	}
	ps := &sparser{toks: toks, src: src}
	defer func() {
		if r := recover(); r != nil {
			if pe, ok := r.(specParseErr); ok {
				err = fmt.Errorf("%s in spec %q", string(pe), src)
				return
			}
			panic(r)
		}
	}()
	e = ps.expr()
	if ps.cur().k != "eof" {
		ps.fail("trailing tokens at %q", ps.cur().s)
	}
	return e, nil
}

type specParseErr string

func (ps *sparser) fail(f string, a ...interface{}) { panic(specParseErr(fmt.Sprintf(f, a...))) }
func (ps *sparser) cur() tok                        { return ps.toks[ps.p] }
func (ps *sparser) next() tok                       { t := ps.toks[ps.p]; ps.p++; return t }
func (ps *sparser) isOp(s string) bool              { t := ps.cur(); return t.k == "op" && t.s == s }
func (ps *sparser) isId(s string) bool              { t := ps.cur(); return t.k == "id" && t.s == s }
func (ps *sparser) expectOp(s string) {
	if !ps.isOp(s) {
		ps.fail("expected %q, got %q", s, ps.cur().s)
	}
	ps.p++
}

func (ps *sparser) expr() SExpr {
	if ps.isId("forall") || ps.isId("exists") {
		fa := ps.next().s == "forall"
		var vars []SVar
		for {
			if ps.cur().k != "id" {
				ps.fail("expected bound variable name")
			}
			name := ps.next().s
			// type: raw tokens until ',' or '::' at bracket depth 0
			var sb strings.Builder
			depth := 0
			for {
				t := ps.cur()
				if t.k == "eof" {
					ps.fail("unterminated quantifier")
				}
				if depth == 0 && t.k == "op" && (t.s == "," || t.s == "::" || t.s == "{") {
					break
				}
				if t.k == "op" && (t.s == "[" || t.s == "(") {
					depth++
				}
				if t.k == "op" && (t.s == "]" || t.s == ")") {
					depth--
				}
				sb.WriteString(t.s)
				ps.p++
			}
			vars = append(vars, SVar{name, sb.String()})
			if ps.isOp(",") {
				ps.p++
				continue
			}
			break
		}
		var pats [][]SExpr
		for ps.isOp("{") {
			ps.p++
			var pat []SExpr
			for {
				pat = append(pat, ps.expr())
				if ps.isOp(",") {
					ps.p++
					continue
				}
				break
			}
			ps.expectOp("}")
			pats = append(pats, pat)
		}
		ps.expectOp("::")
		body := ps.expr()
		return &SQuant{Forall: fa, Vars: vars, Pats: pats, Body: body}
	}
	if ps.isId("let") {
		ps.p++
		name := ps.next().s
		ps.expectOp(":=")
		v := ps.expr()
		ps.expectOp("::")
		b := ps.expr()
		return &SLet{name, v, b}
	}
	return ps.iff()
}

func (ps *sparser) iff() SExpr {
	l := ps.implies()
	for ps.isOp("<==>") {
		ps.p++
		r := ps.implies()
		l = &SBinary{"<==>", l, r}
	}
	return l
}

func (ps *sparser) implies() SExpr {
	l := ps.or()
	if ps.isOp("==>") {
		ps.p++
		var r SExpr
		if ps.isId("forall") || ps.isId("exists") || ps.isId("let") {
			r = ps.expr()
		} else {
			r = ps.implies()
		}
		return &SBinary{"==>", l, r}
	}
	return l
}

func (ps *sparser) or() SExpr {
	l := ps.and()
	for ps.isOp("||") {
		ps.p++
		r := ps.and()
		l = &SBinary{"||", l, r}
	}
	return l
}

func (ps *sparser) and() SExpr {
	l := ps.cmp()
	for ps.isOp("&&") {
		ps.p++
		var r SExpr
		if ps.isId("forall") || ps.isId("exists") || ps.isId("let") {
			r = ps.expr()
		} else {
			r = ps.cmp()
		}
		l = &SBinary{"&&", l, r}
	}
	return l
}

func (ps *sparser) cmp() SExpr {
	l := ps.add()
	for {
		t := ps.cur()
		if t.k == "op" && (t.s == "==" || t.s == "!=" || t.s == "<" || t.s == "<=" || t.s == ">" || t.s == ">=") {
			ps.p++
			r := ps.add()
			l = &SBinary{t.s, l, r}
			continue
		}
		if t.k == "id" && t.s == "in" {
			ps.p++
			r := ps.add()
			l = &SBinary{"in", l, r}
			continue
		}
		return l
	}
}

func (ps *sparser) add() SExpr {
	l := ps.mul()
	for ps.isOp("+") || ps.isOp("-") {
		op := ps.next().s
		r := ps.mul()
		l = &SBinary{op, l, r}
	}
	return l
}

func (ps *sparser) mul() SExpr {
	l := ps.unary()
	for ps.isOp("*") || ps.isOp("/") || ps.isOp("%") {
		op := ps.next().s
		r := ps.unary()
		l = &SBinary{op, l, r}
	}
	return l
}

func (ps *sparser) unary() SExpr {
	if ps.isOp("!") {
		ps.p++
		return &SUnary{"!", ps.unary()}
	}
	if ps.isOp("-") {
		ps.p++
		return &SUnary{"-", ps.unary()}
	}
	return ps.postfix()
}

func (ps *sparser) postfix() SExpr {
	e := ps.atom()
	for {
		switch {
		case ps.isOp("."):
			ps.p++
			if ps.cur().k != "id" {
				ps.fail("expected field name after '.'")
			}
			e = &SField{e, ps.next().s}
		case ps.isOp("["):
			ps.p++
			if ps.isOp(":") {
				ps.p++
				hi := ps.expr()
				ps.expectOp("]")
				e = &SSlice{e, nil, hi}
				continue
			}
			i := ps.expr()
			if ps.isOp(":") {
				ps.p++
				var hi SExpr
				if !ps.isOp("]") {
					hi = ps.expr()
				}
				ps.expectOp("]")
				e = &SSlice{e, i, hi}
				continue
			}
			ps.expectOp("]")
			e = &SIndex{e, i}
		case ps.isOp("("):
			// call: only on identifiers or pkg.ident
			name := ""
			switch x := e.(type) {
			case *SIdent:
				name = x.Name
			case *SField:
				if id, ok := x.X.(*SIdent); ok {
					name = id.Name + "." + x.Name
				}
			}
			if name == "" {
				ps.fail("call of non-identifier")
			}
			ps.p++
			var args []SExpr
			for !ps.isOp(")") {
				args = append(args, ps.expr())
				if ps.isOp(",") {
					ps.p++
				} else {
					break
				}
			}
			ps.expectOp(")")
			e = &SCall{name, args}
		default:
			return e
		}
	}
}

func (ps *sparser) atom() SExpr {
	t := ps.next()
	switch t.k {
	case "int":
		return &SInt{t.s}
	case "str":
		return &SStr{t.s}
	case "id":
		switch t.s {
		case "true":
			return &SBool{true}
		case "false":
			return &SBool{false}
		case "nil":
			return &SNil{}
		}
		return &SIdent{t.s}
	case "op":
		if t.s == "(" {
			e := ps.expr()
			ps.expectOp(")")
			return e
		}
	}
	ps.fail("unexpected token %q", t.s)
	return nil
}

func specString(e SExpr) string {
	switch x := e.(type) {
	case *SIdent:
		return x.Name
	case *SInt:
		return x.Val
	case *SStr:
		return fmt.Sprintf("%q", x.Val)
	case *SBool:
		return fmt.Sprint(x.Val)
	case *SNil:
		return "nil"
	case *SUnary:
		return x.Op + specString(x.X)
	case *SBinary:
		return "(" + specString(x.L) + " " + x.Op + " " + specString(x.R) + ")"
	case *SCall:
		var a []string
		for _, y := range x.Args {
			a = append(a, specString(y))
		}
		return x.Fun + "(" + strings.Join(a, ", ") + ")"
	case *SField:
		return specString(x.X) + "." + x.Name
	case *SIndex:
		return specString(x.X) + "[" + specString(x.I) + "]"
	case *SSlice:
		lo, hi := "", ""
		if x.Lo != nil {
			lo = specString(x.Lo)
		}
		if x.Hi != nil {
			hi = specString(x.Hi)
		}
		return specString(x.X) + "[" + lo + ":" + hi + "]"
	case *SQuant:
		q := "exists"
		if x.Forall {
			q = "forall"
		}
		var vs []string
		for _, v := range x.Vars {
			vs = append(vs, v.Name+" "+v.Type)
		}
		return "(" + q + " " + strings.Join(vs, ", ") + " :: " + specString(x.Body) + ")"
	case *SLet:
		return "(let " + x.Name + " := " + specString(x.Val) + " in " + specString(x.Body) + ")"
	}
	return "?"
}
