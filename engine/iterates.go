package main

import (
	"fmt"
	"go/ast"
	"go/token"
	"go/types"
	"strings"

	"golang.org/x/tools/go/packages"
)

// runIterates executes the `iterates PARAM(ARGS) count N` steps of a callee contract at a call site with the loop
// rule: the closure literal passed for PARAM is the loop body, $i the number of completed iterations. The caller's
// contract supplies the invariant (`iterloop CALLEE invariant EXPR`): it is checked at $i = 0, everything the closure
// can assign is havocked, the invariant is assumed at a fresh $i in [0, N), the closure body (the real code) is run
// with the arguments the callee contract gives for that $i, the invariant is checked at $i+1 on every path out of
// the body, and the code after the call continues from the havocked state with the invariant at $i = N.
func (c *FnCtx) runIterates(st *State, fc *FuncContract, sig *types.Signature, env map[string]Term, pkg *packages.Package, pre *State, pos token.Pos, key string) {
	for j, it := range fc.Iterates {
		idx := -1
		for i := 0; i < sig.Params().Len(); i++ {
			name := sig.Params().At(i).Name()
			if i < len(fc.Params) {
				name = fc.Params[i]
			}
			if name == it.Param {
				idx = i
			}
		}
		if idx < 0 || idx >= len(c.curCallExprs) {
			panic(toolErr("iterates %s: no such parameter in %s", it.Param, fc.Key))
		}
		lit, ok := ast.Unparen(c.curCallExprs[idx]).(*ast.FuncLit)
		if !ok {
			panic(unsup("iterates %s of %s: the argument at %s is not a function literal", it.Param, fc.Key, c.pos(pos)))
		}
		fi := c.e.funcs[c.e.litKey[lit]]
		if fi == nil || fi.Sig.Params().Len() != len(it.Args) {
			panic(unsup("iterates %s of %s: closure with %d parameters expected", it.Param, fc.Key, len(it.Args)))
		}
		var invs []Clause
		if c.fc != nil {
			for callee, cl := range c.fc.IterInv {
				if key == callee || strings.HasSuffix(key, "."+callee) || strings.HasSuffix(key, "/"+callee) {
					invs = append(invs, cl...)
				}
			}
		}
		if len(invs) == 0 {
			c.e.trusted[fmt.Sprintf("iteration by %s in %s has no invariant (havoc only)", shortFn(key), shortFn(c.fi.Key))] = true
		}
		ord := 90 + j
		sc := &SpecCtx{c: c, pkg: pkg, env: env, st: st, old: pre}
		n := sc.eval(it.Count)
		st.assume(fmt.Sprintf("(>= %s 0)", n.S))
		intT := types.Typ[types.Int]
		c.checkInvariant(st, invs, ord, "iter-entry", pos, map[string]Term{"$i": {S: "0", Sort: sInt, T: intT}})
		c.havocLoop(st, lit.Body)
		// one arbitrary iteration
		k := c.fresh(st, "iter", intT)
		body := st.clone()
		body.assume(fmt.Sprintf("(and (<= 0 %s) (< %s %s))", k.S, k.S, n.S))
		c.assumeInvariant(body, invs, map[string]Term{"$i": k})
		aenv := copyEnv(env)
		aenv["$i"] = k
		asc := &SpecCtx{c: c, pkg: pkg, env: aenv, st: body, old: pre}
		var args []Term
		for i, a := range it.Args {
			v := asc.eval(a)
			v.T = fi.Sig.Params().At(i).Type()
			args = append(args, v)
		}
		sub := &FnCtx{e: c.e, fi: fi, fc: c.e.contracts[fi.Key], info: fi.Pkg.TypesInfo, entry: c.entry, env: c.env, obls: c.obls,
			loopOrd: numberLoops(fi.Body), overflow: c.overflow, safety: c.safety, names: c.names, posName: c.posName, watch: c.watch,
			prefix: c.prefix + "iter(" + shortKey(fi.Key) + ")/", inlineDepth: c.inlineDepth + 1, labels: map[ast.Stmt]string{},
			lenientOuter: c.lenient(), escaping: map[types.Object]bool{}, captured: c.captured}
		for i := 0; i < fi.Sig.Params().Len(); i++ {
			body.vars[fi.Sig.Params().At(i)] = args[i]
			c.readFacts(body, args[i])
		}
		savedDefers := body.defers
		body.defers = nil
		kp1 := Term{S: fmt.Sprintf("(+ %s 1)", k.S), Sort: sInt, T: intT}
		for _, o := range sub.execBlock(body, fi.Body.List) {
			if o.st.dead {
				continue
			}
			if len(o.st.defers) > 0 {
				panic(unsup("iterated closure %s defers", fi.Key))
			}
			if o.kind != oNext && o.kind != oReturn {
				panic(unsup("iterated closure %s ends with break/continue", fi.Key))
			}
			o.st.defers = savedDefers
			c.checkInvariant(o.st, invs, ord, "iter-preserved", pos, map[string]Term{"$i": kp1})
		}
		// after the last iteration
		c.assumeInvariant(st, invs, map[string]Term{"$i": n})
	}
}
