package main

import (
	"regexp"
	"strings"
)

// Relevance slicing of an obligation's assumptions (cone of influence over the symbolic constants).
// Dropping assumptions only weakens the hypothesis, so `unsat` for the sliced query discharges the
// obligation; any other answer is ignored and the full query is tried. Symbols that connect everything
// (the allocation map, entry-state heap versions `@0`, the function's parameters) do not propagate
// relevance; an assumption that mentions no symbolic constant at all is always kept.
var symRE = regexp.MustCompile(`[A-Za-z_][A-Za-z0-9_.$]*[!@][0-9]+`)

func symbolsOf(s string, hubs map[string]bool) []string {
	seen := map[string]bool{}
	var out []string
	for _, m := range symRE.FindAllString(s, -1) {
		if seen[m] || hubs[m] || strings.HasPrefix(m, "alloc") || strings.HasSuffix(m, "@0") {
			continue
		}
		seen[m] = true
		out = append(out, m)
	}
	return out
}

// slicedAssumps returns the assumptions relevant to the goal (nil when slicing removes nothing).
func slicedAssumps(o *Obligation) []string {
	hubs := map[string]bool{}
	for _, v := range o.Watch {
		hubs[v] = true
	}
	for _, v := range o.Hubs {
		hubs[v] = true
	}
	// symbols that occur in a large share of the assumptions connect everything: hubs as well
	freq := map[string]int{}
	for _, a := range o.Assumps {
		for _, s := range symbolsOf(a, hubs) {
			freq[s]++
		}
	}
	limit := len(o.Assumps) / 6
	if limit < 6 {
		limit = 6
	}
	for s, n := range freq {
		if n >= limit {
			hubs[s] = true
		}
	}
	syms := make([][]string, len(o.Assumps))
	for i, a := range o.Assumps {
		syms[i] = symbolsOf(a, hubs)
	}
	rel := map[string]bool{}
	for _, s := range symbolsOf(o.Goal, hubs) {
		rel[s] = true
	}
	keep := make([]bool, len(o.Assumps))
	for changed := true; changed; {
		changed = false
		for i := range o.Assumps {
			if keep[i] {
				continue
			}
			hit := len(syms[i]) == 0
			for _, s := range syms[i] {
				if rel[s] {
					hit = true
					break
				}
			}
			if hit {
				keep[i] = true
				changed = true
				for _, s := range syms[i] {
					rel[s] = true
				}
			}
		}
	}
	var out []string
	for i, a := range o.Assumps {
		if keep[i] {
			out = append(out, a)
		}
	}
	if len(out) == len(o.Assumps) {
		return nil
	}
	return out
}
