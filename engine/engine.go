package main

import (
	"fmt"
	"go/ast"
	"go/token"
	"go/types"
	"os"
	"path/filepath"
	"sort"
	"strings"

	"golang.org/x/tools/go/packages"
)

const modPath = "github.com/ipfs/go-graphsync"

type GhostVar struct {
	Name string
	Sort *Sort
	T    types.Type // for set[T]/map[K]T-of-go-type lookups (elem go type), may be nil
	GT   *GhostType
}

// GhostType is the parsed type of a ghost variable / quantified variable / spec fn parameter.
type GhostType struct {
	Kind string // "go", "set", "map", "seq", "int", "bool", "ref"
	Go   types.Type
	Key  *GhostType
	Elem *GhostType
}

type FuncInfo struct {
	Key   string // full key
	Pkg   *packages.Package
	Decl  *ast.FuncDecl // nil for literals
	Lit   *ast.FuncLit
	Outer *FuncInfo // for literals
	Sig   *types.Signature
	Obj   *types.Func
	Body  *ast.BlockStmt
	Recv  *types.Var
}

type Engine struct {
	repo      string
	verifDir  string
	fset      *token.FileSet
	pkgs      map[string]*packages.Package
	d         *Decls
	contracts map[string]*FuncContract
	csets     []*ContractSet
	ghosts    map[string]*GhostVar
	ghostPkg  map[string]*packages.Package
	preds     map[string]*PredDef
	predPkg   map[string]*packages.Package
	fns       map[string]*SpecFn
	fnPkg     map[string]*packages.Package
	axioms    []*Axiom
	lemmas    map[string]*Axiom
	axPkg     map[*Axiom]*packages.Package
	onwrites  map[string][]*OnWrite // "pkgpath.Type.field"
	typedPkgs map[string]bool // packages whose contract file says `typedrefs`
	typedRefs bool                  // typedrefs clause seen: allocation and typed reads record dyntype (typedrefs.go)
	inlineObj map[string]bool       // "pkgpath.Type.field": struct-valued fields modelled as fixed sub-objects (inlineobj.go)
	onsends   []*OnSend
	funcs     map[string]*FuncInfo // full key -> info (module functions with bodies)
	litKey    map[*ast.FuncLit]string
	trusted   map[string]bool // trusted base items collected during a run
	anyPkg    *packages.Package
	timeoutS  int
	tier      string
	heapElemType map[string]types.Type
	sigByKey     map[string]*types.Signature
}

// currentPackID: the property whose pack is being checked ("" in `gsv fn` mode); see `onlyfor`.
var currentPackID string

func loadEngine(repo, verifDir string, pkgPatterns []string) (*Engine, error) {
	e := &Engine{repo: repo, verifDir: verifDir, fset: token.NewFileSet(), pkgs: map[string]*packages.Package{},
		d: newDecls(modPath), contracts: map[string]*FuncContract{}, ghosts: map[string]*GhostVar{}, ghostPkg: map[string]*packages.Package{},
		preds: map[string]*PredDef{}, predPkg: map[string]*packages.Package{}, fns: map[string]*SpecFn{}, fnPkg: map[string]*packages.Package{},
		lemmas: map[string]*Axiom{}, axPkg: map[*Axiom]*packages.Package{}, onwrites: map[string][]*OnWrite{},
		funcs: map[string]*FuncInfo{}, litKey: map[*ast.FuncLit]string{}, trusted: map[string]bool{}, timeoutS: 10, tier: "quick", heapElemType: map[string]types.Type{}, sigByKey: map[string]*types.Signature{}}
	cfg := &packages.Config{
		Mode:       packages.NeedName | packages.NeedFiles | packages.NeedCompiledGoFiles | packages.NeedImports | packages.NeedDeps | packages.NeedTypes | packages.NeedSyntax | packages.NeedTypesInfo | packages.NeedTypesSizes,
		Dir:        repo,
		Fset:       e.fset,
		BuildFlags: []string{"-tags=verif"},
		Env:        append(os.Environ(), "GOFLAGS=-mod=mod", "GOPROXY=off", "GOSUMDB=off", "GOTOOLCHAIN=local"),
	}
	pkgs, err := packages.Load(cfg, pkgPatterns...)
	if err != nil {
		return nil, err
	}
	var errs []string
	packages.Visit(pkgs, nil, func(p *packages.Package) {
		for _, pe := range p.Errors {
			if strings.HasPrefix(p.PkgPath, modPath) {
				errs = append(errs, pe.Error())
			}
		}
		e.pkgs[p.PkgPath] = p
	})
	if len(errs) > 0 {
		return nil, fmt.Errorf("package errors: %s", strings.Join(errs, "; "))
	}
	for _, p := range pkgs {
		if e.anyPkg == nil {
			e.anyPkg = p
		}
	}
	// contract files: deps first (global), then per package
	depFiles, _ := filepath.Glob(filepath.Join(verifDir, "contracts", "deps", "*.gsc"))
	sort.Strings(depFiles)
	for _, f := range depFiles {
		cs, err := loadContractFile(f, false, "")
		if err != nil {
			return nil, err
		}
		if err := e.addContractSet(cs, nil); err != nil {
			return nil, err
		}
	}
	// contracts of every module package that is loaded (roots and module deps)
	var modPkgs []string
	for path := range e.pkgs {
		if e.d.inModule(e.pkgs[path].Types) {
			modPkgs = append(modPkgs, path)
		}
	}
	sort.Strings(modPkgs)
	for _, path := range modPkgs {
		p := e.pkgs[path]
		if len(p.GoFiles) == 0 {
			continue
		}
		dir := filepath.Dir(p.GoFiles[0])
		cf := filepath.Join(dir, "zz_contracts_verif.go")
		if _, err := os.Stat(cf); err != nil {
			continue
		}
		cs, err := loadContractFile(cf, true, p.PkgPath)
		if err != nil {
			return nil, err
		}
		if p.Syntax == nil {
			continue
		}
		if len(cs.OnlyFor) > 0 {
			// `onlyfor C01 C02 ...`: this package's contracts are visible only to the packs named (and to `gsv fn` runs that
			// name the package itself); everywhere else calls into the package stay abstracted, as before the contracts existed
			use := false
			if currentPackID != "" {
				for _, id := range cs.OnlyFor {
					if id == currentPackID {
						use = true
					}
				}
			} else {
				for _, rp := range pkgs {
					if rp == p {
						use = true
					}
				}
			}
			if !use {
				continue
			}
		}
		if err := e.addContractSet(cs, p); err != nil {
			return nil, err
		}
	}
	for _, p := range e.pkgs {
		e.indexFuncs(p)
	}
	if err := e.registerAxioms(); err != nil {
		return nil, err
	}
	return e, nil
}

// registerAxioms turns the closed `axiom` clauses into SMT background axioms. An axiom is included
// in a query only when one of the spec functions it mentions occurs in that query.
func (e *Engine) registerAxioms() (err error) {
	defer func() {
		if r := recover(); r != nil {
			if te, ok := r.(toolError); ok {
				err = te
				return
			}
			panic(r)
		}
	}()
	for _, a := range e.axioms {
		c := &FnCtx{e: e, fi: &FuncInfo{Key: "axiom " + a.Name, Pkg: e.axPkg[a]}, env: map[string]Term{}}
		st := newState()
		sc := &SpecCtx{c: c, pkg: e.axPkg[a], env: map[string]Term{}, st: st, old: st}
		t := sc.eval(a.Body)
		var trig []string
		for name := range e.fns {
			if strings.Contains(t.S, "fn."+name+" ") || strings.Contains(t.S, "fn."+name+")") {
				trig = append(trig, "fn."+name)
			}
		}
		sort.Strings(trig)
		if len(trig) == 0 {
			return fmt.Errorf("axiom %s mentions no spec function", a.Name)
		}
		e.d.addAxiomTrig("axiom."+a.Name, t.S, strings.Join(trig, "|"))
		e.trusted["axiom: "+a.Name+": "+strings.TrimSpace(a.Src)] = false // listed only when used
	}
	return nil
}

func (e *Engine) addContractSet(cs *ContractSet, p *packages.Package) error {
	e.csets = append(e.csets, cs)
	for _, o := range cs.Opaque {
		e.d.opaque[o] = true
	}
	for _, o := range cs.Transparent {
		e.d.transparent[o] = true
	}
	if cs.TypedRefs {
		e.typedRefs = true
		if e.typedPkgs == nil {
			e.typedPkgs = map[string]bool{}
		}
		if p != nil {
			e.typedPkgs[p.PkgPath] = true
		}
	}
	for _, o := range cs.InlineObj {
		if p == nil {
			return fmt.Errorf("inlineobj %s outside a package contract file", o)
		}
		if e.inlineObj == nil {
			e.inlineObj = map[string]bool{}
		}
		e.inlineObj[p.PkgPath+"."+o] = true
	}
	for _, g := range cs.Ghosts {
		if _, dup := e.ghosts[g.Name]; dup {
			if g.Name == "spawned" {
				continue // the goroutine counter may be declared by every package that uses it (same type: int)
			}
			return fmt.Errorf("duplicate ghost %s", g.Name)
		}
		e.ghosts[g.Name] = &GhostVar{Name: g.Name}
		e.ghostPkg[g.Name] = p
	}
	for n, pd := range cs.Preds {
		if _, dup := e.preds[n]; dup {
			return fmt.Errorf("duplicate pred %s", n)
		}
		e.preds[n] = pd
		e.predPkg[n] = p
	}
	for n, f := range cs.Fns {
		if _, dup := e.fns[n]; dup {
			return fmt.Errorf("duplicate fn %s", n)
		}
		e.fns[n] = f
		e.fnPkg[n] = p
	}
	for _, a := range cs.Axioms {
		e.axPkg[a] = p
		if a.IsLemma {
			e.lemmas[a.Name] = a
		} else {
			e.axioms = append(e.axioms, a)
		}
	}
	for _, ow := range cs.OnWrites {
		pp := ""
		if p != nil {
			pp = p.PkgPath
		}
		k := pp + "." + ow.TypeName + "." + ow.Field
		e.onwrites[k] = append(e.onwrites[k], ow)
	}
	for _, os := range cs.OnSends {
		if p != nil {
			os.DefPkg = p.PkgPath
		}
		e.onsends = append(e.onsends, os)
	}
	for _, k := range cs.FuncOrd {
		fc := cs.Funcs[k]
		full := k
		if p != nil && !fc.Absolute {
			full = p.PkgPath + "." + k
		}
		for _, u := range fc.GhostUpd {
			has := false
			for _, m := range fc.Modifies {
				if m == u.Target {
					has = true
				}
			}
			if !has {
				fc.Modifies = append(fc.Modifies, u.Target)
				fc.HasMod = true
			}
		}
		fc.Key = full
		if p != nil {
			fc.DefPkg = p.PkgPath
		}
		if _, dup := e.contracts[full]; dup {
			return fmt.Errorf("duplicate contract %s", full)
		}
		e.contracts[full] = fc
	}
	return nil
}

// resolve ghost var sorts lazily (needs package scope)
func (e *Engine) ghostVar(name string) *GhostVar {
	g := e.ghosts[name]
	if g == nil {
		return nil
	}
	if g.Sort == nil {
		var decl GhostDecl
		for _, cs := range e.csets {
			for _, gd := range cs.Ghosts {
				if gd.Name == name {
					decl = gd
				}
			}
		}
		gt := e.parseGhostType(decl.Type, e.ghostPkg[name], token.NoPos)
		g.GT = gt
		g.Sort = e.ghostSort(gt)
	}
	return g
}

func funcKeyOf(f *types.Func) string {
	sig := f.Type().(*types.Signature)
	pkg := ""
	if f.Pkg() != nil {
		pkg = f.Pkg().Path()
	}
	if r := sig.Recv(); r != nil {
		t := r.Type()
		if p, ok := t.(*types.Pointer); ok {
			t = p.Elem()
		}
		t = types.Unalias(t)
		if n, ok := t.(*types.Named); ok {
			if n.Obj().Pkg() != nil {
				pkg = n.Obj().Pkg().Path()
			}
			return pkg + "." + n.Obj().Name() + "." + f.Name()
		}
		return pkg + ".?." + f.Name()
	}
	return pkg + "." + f.Name()
}

func (e *Engine) indexFuncs(p *packages.Package) {
	if p.Types == nil || p.Syntax == nil {
		return
	}
	if !e.d.inModule(p.Types) {
		// dependency packages are indexed only when a (non-assumed) contract asks to verify one of their functions
		want := false
		for k, fc := range e.contracts {
			if !fc.Assumed && strings.HasPrefix(k, p.PkgPath+".") && !strings.Contains(strings.TrimPrefix(k, p.PkgPath+"."), "/") {
				want = true
			}
		}
		if !want {
			return
		}
	}
	for _, file := range p.Syntax {
		for _, dcl := range file.Decls {
			fd, ok := dcl.(*ast.FuncDecl)
			if !ok || fd.Body == nil {
				continue
			}
			obj := p.TypesInfo.Defs[fd.Name].(*types.Func)
			key := funcKeyOf(obj)
			fi := &FuncInfo{Key: key, Pkg: p, Decl: fd, Sig: obj.Type().(*types.Signature), Obj: obj, Body: fd.Body}
			fi.Recv = fi.Sig.Recv()
			e.funcs[key] = fi
			// literals
			n := 0
			ast.Inspect(fd.Body, func(nd ast.Node) bool {
				if fl, ok := nd.(*ast.FuncLit); ok {
					n++
					k := fmt.Sprintf("%s.func%d", key, n)
					e.litKey[fl] = k
					sig, _ := p.TypesInfo.TypeOf(fl).(*types.Signature)
					e.funcs[k] = &FuncInfo{Key: k, Pkg: p, Lit: fl, Outer: fi, Sig: sig, Body: fl.Body}
				}
				return true
			})
		}
	}
}

// ---- ghost types ----

func (e *Engine) parseGhostType(s string, p *packages.Package, pos token.Pos) *GhostType {
	s = strings.TrimSpace(s)
	switch s {
	case "int":
		return &GhostType{Kind: "int"}
	case "bool":
		return &GhostType{Kind: "bool"}
	case "ref":
		return &GhostType{Kind: "ref"}
	}
	if strings.HasPrefix(s, "set[") && strings.HasSuffix(s, "]") {
		return &GhostType{Kind: "set", Key: e.parseGhostType(s[4:len(s)-1], p, pos)}
	}
	if strings.HasPrefix(s, "seq[") && strings.HasSuffix(s, "]") {
		return &GhostType{Kind: "seq", Elem: e.parseGhostType(s[4:len(s)-1], p, pos)}
	}
	if strings.HasPrefix(s, "map[") {
		depth := 0
		for i, c := range s {
			if c == '[' {
				depth++
			}
			if c == ']' {
				depth--
				if depth == 0 {
					return &GhostType{Kind: "map", Key: e.parseGhostType(s[4:i], p, pos), Elem: e.parseGhostType(s[i+1:], p, pos)}
				}
			}
		}
	}
	t := e.resolveGoType(s, p, pos)
	return &GhostType{Kind: "go", Go: t}
}

func (e *Engine) ghostSort(gt *GhostType) *Sort {
	switch gt.Kind {
	case "int":
		return sInt
	case "bool":
		return sBool
	case "ref":
		return sV
	case "set":
		return arraySort(e.ghostSort(gt.Key), sBool)
	case "map":
		return arraySort(e.ghostSort(gt.Key), e.ghostSort(gt.Elem))
	case "seq":
		es := e.ghostSort(gt.Elem)
		return e.d.sliceSortOf(es, gt.Elem.Go)
	}
	return e.d.sortOf(gt.Go)
}

func (gt *GhostType) goType() types.Type {
	if gt == nil {
		return nil
	}
	switch gt.Kind {
	case "go":
		return gt.Go
	case "int":
		return types.Typ[types.Int]
	case "bool":
		return types.Typ[types.Bool]
	}
	return nil
}

// resolveGoType evaluates a Go type expression in the scope of package p (trying every file so
// that file-scoped imports are visible).
func (e *Engine) resolveGoType(s string, p *packages.Package, pos token.Pos) types.Type {
	try := func(p *packages.Package) types.Type {
		if p == nil || p.Types == nil {
			return nil
		}
		if pos != token.NoPos {
			if tv, err := types.Eval(e.fset, p.Types, pos, s); err == nil && tv.IsType() {
				return tv.Type
			}
		}
		for _, f := range p.Syntax {
			if tv, err := types.Eval(e.fset, p.Types, f.End()-1, s); err == nil && tv.IsType() {
				return tv.Type
			}
		}
		return nil
	}
	if t := try(p); t != nil {
		return t
	}
	// qualified by import path tail: try every loaded package whose name matches the qualifier
	if i := strings.LastIndex(s, "."); i > 0 {
		q, name := strings.TrimLeft(s[:i], "*[]"), s[i+1:]
		prefix := s[:len(s)-len(strings.TrimLeft(s, "*[]"))]
		var cands []string
		for path, pk := range e.pkgs {
			if pk.Types != nil && pk.Types.Name() == q {
				cands = append(cands, path)
			}
		}
		sort.Strings(cands)
		for _, path := range cands {
			if obj := e.pkgs[path].Types.Scope().Lookup(name); obj != nil {
				if tn, ok := obj.(*types.TypeName); ok {
					var t types.Type = tn.Type()
					for j := len(prefix) - 1; j >= 0; j-- {
						if prefix[j] == '*' {
							t = types.NewPointer(t)
						}
					}
					if strings.Contains(prefix, "[]") {
						t = types.NewSlice(t)
					}
					return t
				}
			}
		}
	}
	// universe types ([]byte, map[string]int, ...)
	if tv, err := types.Eval(e.fset, nil, token.NoPos, s); err == nil && tv.IsType() {
		return tv.Type
	}
	panic(toolErr("cannot resolve type %q", s))
}

type toolError string

func (t toolError) Error() string { return string(t) }
func toolErr(f string, a ...interface{}) toolError {
	return toolError(fmt.Sprintf(f, a...))
}

type unsupported string

func unsup(f string, a ...interface{}) unsupported { return unsupported(fmt.Sprintf(f, a...)) }
