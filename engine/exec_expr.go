package main

import (
	"fmt"
	"go/ast"
	"go/constant"
	"go/token"
	"go/types"
	"strings"
)

func (c *FnCtx) constTerm(v constant.Value, t types.Type) Term {
	d := c.e.d
	switch v.Kind() {
	case constant.Int:
		s := v.ExactString()
		if strings.HasPrefix(s, "-") {
			s = "(- " + s[1:] + ")"
		}
		return Term{S: s, Sort: sInt, T: t}
	case constant.Bool:
		if constant.BoolVal(v) {
			return Term{S: "true", Sort: sBool, T: t}
		}
		return Term{S: "false", Sort: sBool, T: t}
	case constant.String:
		return Term{S: d.strLit(constant.StringVal(v)), Sort: sV, T: t}
	case constant.Float:
		if i, ok := constant.Int64Val(constant.ToInt(v)); ok && d.sortOf(t).Kind == KInt {
			return Term{S: fmt.Sprint(i), Sort: sInt, T: t}
		}
		return Term{S: d.strLit("float:" + v.ExactString()), Sort: sV, T: t}
	}
	panic(unsup("constant kind %v", v.Kind()))
}

// coerce adapts a value to a target Go type: untyped nil to slices, boxing into interfaces.
func (c *FnCtx) coerce(st *State, t Term, to types.Type) Term {
	if to == nil {
		return t
	}
	d := c.e.d
	so := d.sortOf(to)
	if sameSort(t.Sort, so) {
		if _, isIface := to.Underlying().(*types.Interface); isIface && t.T != nil {
			if _, srcIface := t.T.Underlying().(*types.Interface); !srcIface {
				if b, ok := t.T.(*types.Basic); !ok || b.Kind() != types.UntypedNil {
					// boxing a V-sorted concrete value: record its dynamic type
					d.declFun("dyntype", "V", "Int")
					st.assume(sImp(sNot(sEq(t.S, "nilV")), sEq(sApp("dyntype", t.S), fmt.Sprint(d.typeTag(t.T)))))
					c.noteHashable(st, t.T)
				}
			}
		}
		t.T = to
		return t
	}
	if t.S == "nilV" && t.Sort.Kind == KV {
		return Term{S: d.zero(so), Sort: so, T: to}
	}
	if t.Sort.Kind == KV && so.Kind == KStruct && t.T != nil {
		if pt, ok := t.T.(*types.Pointer); ok && types.Identical(pt.Elem(), to) {
			// an inline-object field read where the struct VALUE is wanted: copy the sub-object's fields out
			return c.derefValue(st, t, token.NoPos)
		}
	}
	if so.Kind == KV {
		// box a non-V value
		bn := "box." + sanitize(t.Sort.SMT())
		un := "unbox." + sanitize(t.Sort.SMT())
		if _, ok := d.funs[bn]; !ok {
			d.declFun(bn, t.Sort.SMT(), "V")
			d.declFun(un, "V", t.Sort.SMT())
			d.declFun("dyntype", "V", "Int")
			if t.Sort.Kind != KStruct && t.Sort.Kind != KSlice {
				d.addAxiom(bn+".inv", fmt.Sprintf("(forall ((x %s)) (! (and (= (%s (%s x)) x) (not (= (%s x) nilV))) :pattern ((%s x))))", t.Sort.SMT(), un, bn, bn, bn))
			}
		}
		b := sApp(bn, t.S)
		// ground instance of the boxing axiom (a quantifier over a datatype that contains arrays makes
		// the solvers answer unknown; every boxed term comes through here, so instances suffice)
		st.assume(sAnd(sEq(sApp(un, b), t.S), sNot(sEq(b, "nilV"))))
		if t.T != nil {
			st.assume(sEq(sApp("dyntype", b), fmt.Sprint(d.typeTag(t.T))))
			c.noteHashable(st, t.T)
		}
		return Term{S: b, Sort: sV, T: to}
	}
	panic(unsup("cannot coerce %s (%s) to %v", t.S, t.Sort.SMT(), to))
}

func (c *FnCtx) unbox(t Term, to types.Type) Term {
	so := c.e.d.sortOf(to)
	if so.Kind == KV {
		t.T = to
		return t
	}
	d := c.e.d
	bn := "box." + sanitize(so.SMT())
	un := "unbox." + sanitize(so.SMT())
	if _, ok := d.funs[bn]; !ok {
		d.declFun(bn, so.SMT(), "V")
		d.declFun(un, "V", so.SMT())
		d.declFun("dyntype", "V", "Int")
		if so.Kind != KStruct && so.Kind != KSlice {
			d.addAxiom(bn+".inv", fmt.Sprintf("(forall ((x %s)) (! (and (= (%s (%s x)) x) (not (= (%s x) nilV))) :pattern ((%s x))))", so.SMT(), un, bn, bn, bn))
		}
	}
	return Term{S: sApp(un, t.S), Sort: so, T: to}
}

func (c *FnCtx) typeOf(e ast.Expr) types.Type {
	if tv, ok := c.info.Types[e]; ok {
		return tv.Type
	}
	if id, ok := e.(*ast.Ident); ok {
		if o := c.info.ObjectOf(id); o != nil {
			return o.Type()
		}
	}
	return nil
}

// evalExpr evaluates a single-valued expression. It may add assumptions and obligations.
func (c *FnCtx) evalExpr(st *State, e ast.Expr) Term {
	d := c.e.d
	if tv, ok := c.info.Types[e]; ok && tv.Value != nil {
		return c.constTerm(tv.Value, tv.Type)
	}
	switch x := e.(type) {
	case *ast.ParenExpr:
		return c.evalExpr(st, x.X)
	case *ast.Ident:
		if x.Name == "nil" {
			if _, ok := c.info.Uses[x].(*types.Nil); ok {
				return Term{S: "nilV", Sort: sV, T: types.Typ[types.UntypedNil]}
			}
		}
		obj := c.info.ObjectOf(x)
		switch o := obj.(type) {
		case *types.Var:
			if t, ok := st.vars[o]; ok {
				if t.Cell {
					t.Cell = false
					return c.derefValue(st, t, x.Pos())
				}
				return t
			}
			if o.Pkg() != nil && o.Parent() == o.Pkg().Scope() {
				t := c.heapGet(st, "PV:"+o.Pkg().Path()+"."+o.Name(), d.sortOf(o.Type())).withT(o.Type())
				c.readFacts(st, t)
				return t
			}
			// captured variable of an enclosing function not bound: treat as unknown input
			t := c.fresh(st, o.Name(), o.Type())
			st.vars[o] = t
			return t
		case *types.Func:
			n := "fnval." + sanitize(funcKeyOf(o))
			d.declConst(n, sV)
			return Term{S: n, Sort: sV, T: o.Type()}
		case *types.Const:
			return c.constTerm(o.Val(), o.Type())
		}
		panic(unsup("identifier %s", x.Name))
	case *ast.SelectorExpr:
		if sel, ok := c.info.Selections[x]; ok {
			switch sel.Kind() {
			case types.FieldVal:
				base := c.evalExpr(st, x.X)
				return c.selectPath(st, base, sel.Index(), x.Pos())
			case types.MethodVal, types.MethodExpr:
				// bound method value: opaque
				n := c.e.d.freshConst("methodval", sV)
				return Term{S: n, Sort: sV, T: sel.Type()}
			}
		}
		// qualified identifier
		obj := c.info.Uses[x.Sel]
		switch o := obj.(type) {
		case *types.Var:
			t := c.heapGet(st, "PV:"+o.Pkg().Path()+"."+o.Name(), d.sortOf(o.Type())).withT(o.Type())
			c.readFacts(st, t)
			return t
		case *types.Func:
			n := "fnval." + sanitize(funcKeyOf(o))
			d.declConst(n, sV)
			return Term{S: n, Sort: sV, T: o.Type()}
		case *types.Const:
			return c.constTerm(o.Val(), o.Type())
		}
		panic(unsup("selector %s", x.Sel.Name))
	case *ast.StarExpr:
		p := c.evalExpr(st, x.X)
		return c.derefValue(st, p, x.Pos())
	case *ast.UnaryExpr:
		switch x.Op {
		case token.NOT:
			v := c.evalExpr(st, x.X)
			return Term{S: sNot(v.S), Sort: sBool, T: v.T}
		case token.SUB:
			v := c.evalExpr(st, x.X)
			return Term{S: "(- " + v.S + ")", Sort: sInt, T: v.T}
		case token.ADD:
			return c.evalExpr(st, x.X)
		case token.AND:
			return c.addressOf(st, x.X)
		case token.ARROW:
			vs := c.recv(st, x.X, x.Pos())
			return vs[0]
		}
		panic(unsup("unary operator %s", x.Op))
	case *ast.BinaryExpr:
		return c.evalBinary(st, x)
	case *ast.CallExpr:
		rs := c.evalCall(st, x)
		if len(rs) != 1 {
			panic(unsup("call used as single value returns %d values", len(rs)))
		}
		return rs[0]
	case *ast.IndexExpr:
		bt := c.typeOf(x.X)
		switch u := bt.Underlying().(type) {
		case *types.Slice:
			s := c.evalExpr(st, x.X)
			i := c.evalExpr(st, x.Index)
			c.boundsCheck(st, s, i.S, x.Pos())
			t := Term{S: sliceAt(s, i.S), Sort: s.Sort.Elem, T: u.Elem()}
			c.readFacts(st, t)
			return t
		case *types.Map:
			m := c.evalExpr(st, x.X)
			k := c.coerce(st, c.evalExpr(st, x.Index), u.Key())
			v, _ := c.mapRead(st, m, u, k)
			return v
		}
		panic(unsup("index of %v", bt))
	case *ast.SliceExpr:
		if at, ok := c.typeOf(x.X).Underlying().(*types.Array); ok && x.Low == nil && x.High == nil {
			// a[:] of an array: a view of all its elements; the contents are not tracked (arrays are opaque values),
			// the length is the array's
			rt := c.typeOf(x)
			v := c.fresh(st, "arrview", rt)
			if v.Sort.Kind == KSlice {
				st.assume(sEq(sliceLen(v), fmt.Sprint(at.Len())))
				c.e.trusted["slice of an array: contents not modelled, length exact, in "+shortFn(c.fi.Key)] = true
				return v
			}
		}
		s := c.evalExpr(st, x.X)
		if s.Sort.Kind != KSlice {
			panic(unsup("slice expression on %v", c.typeOf(x.X)))
		}
		n := s.Sort.Name
		lo, hi := "0", fmt.Sprintf("(%s.len %s)", n, s.S)
		if x.Low != nil {
			lo = c.evalExpr(st, x.Low).S
		}
		if x.High != nil {
			hi = c.evalExpr(st, x.High).S
		}
		if c.safety {
			c.oblige(st, "slice-bounds", "", x.Pos(), sAnd("(<= 0 "+lo+")", "(<= "+lo+" "+hi+")", fmt.Sprintf("(<= %s (%s.len %s))", hi, n, s.S)),
				"slice bounds in range (capacity not modelled: high bound checked against len)")
		}
		return Term{S: fmt.Sprintf("(%s (%s.arr %s) (+ (%s.off %s) %s) (- %s %s))", s.Sort.ctor(), n, s.S, n, s.S, lo, hi, lo), Sort: s.Sort, T: s.T}
	case *ast.CompositeLit:
		return c.compositeLit(st, x)
	case *ast.TypeAssertExpr:
		v := c.evalExpr(st, x.X)
		to := c.typeOf(x.Type)
		if c.safety {
			d.declFun("dyntype", "V", "Int")
			if _, isIface := to.Underlying().(*types.Interface); !isIface {
				c.oblige(st, "type-assert", typeShortName(to), x.Pos(), sEq(sApp("dyntype", v.S), fmt.Sprint(d.typeTag(to))),
					"non-comma-ok type assertion cannot panic")
			}
		}
		return c.unbox(v, to)
	case *ast.FuncLit:
		n := c.e.d.freshConst("closure", sV)
		st.assume(sNot(sEq(n, "nilV")))
		return Term{S: n, Sort: sV, T: c.typeOf(x)}
	case *ast.BasicLit:
		// non-constant? should not happen
	}
	panic(unsup("expression %T at %s", e, c.pos(e.Pos())))
}

func sliceAt(s Term, i string) string {
	n := s.Sort.Name
	if i == "0" {
		return fmt.Sprintf("(select (%s.arr %s) (%s.off %s))", n, s.S, n, s.S)
	}
	return fmt.Sprintf("(select (%s.arr %s) (+ (%s.off %s) %s))", n, s.S, n, s.S, i)
}

func sliceLen(s Term) string { return fmt.Sprintf("(%s.len %s)", s.Sort.Name, s.S) }

func (c *FnCtx) boundsCheck(st *State, s Term, i string, p token.Pos) {
	if c.safety {
		c.oblige(st, "index-bounds", "", p, sAnd("(<= 0 "+i+")", "(< "+i+" "+sliceLen(s)+")"), "slice index in range")
	}
}

func (c *FnCtx) nilCheck(st *State, p Term, pos token.Pos, what string) {
	if c.safety && p.S != "nilV" {
		if c.isKnownNonNil(st, p) {
			return
		}
		c.oblige(st, "nil-deref", what, pos, sNot(sEq(p.S, "nilV")), "pointer is not nil when dereferenced")
	}
}

func (c *FnCtx) isKnownNonNil(st *State, p Term) bool {
	want := sNot(sEq(p.S, "nilV"))
	for _, a := range st.path {
		if a == want {
			return true
		}
	}
	return false
}

// selectPath follows a field path (with implicit dereferences) from base.
func (c *FnCtx) selectPath(st *State, base Term, idx []int, pos token.Pos) Term {
	cur := base
	for _, i := range idx {
		n, stt, isPtr := derefNamedStruct(cur.T)
		if n == nil {
			panic(unsup("field selection on %v", cur.T))
		}
		f := stt.Field(i)
		if isPtr {
			c.nilCheck(st, cur, pos, f.Name())
			if c.e.isInlineObj(n, f) {
				cur = c.inlineRef(st, n, f, cur)
				continue
			}
			arr := c.fieldArr(st, n, f)
			cur = Term{S: sSel(arr.S, cur.S), Sort: arr.Sort.Elem, T: f.Type()}
			c.readFacts(st, cur)
		} else {
			if cur.Sort.Kind != KStruct {
				// field of an opaque dependency struct value: uninterpreted function of the value
				fso := c.e.d.sortOf(f.Type())
				fn := "field." + typeShortName(n) + "." + f.Name()
				c.e.d.declFun(fn, "V", fso.SMT())
				cur = Term{S: sApp(fn, cur.S), Sort: fso, T: f.Type()}
				continue
			}
			cur = Term{S: sApp(cur.Sort.sel(f.Name()), cur.S), Sort: cur.Sort.Fields[i].Sort, T: f.Type()}
		}
	}
	return cur
}

func (c *FnCtx) derefValue(st *State, p Term, pos token.Pos) Term {
	n, stt, isPtr := derefNamedStruct(p.T)
	if n != nil && isPtr {
		c.nilCheck(st, p, pos, "*")
		so := c.e.d.sortOf(n)
		if so.Kind != KStruct {
			// pointer to an opaque (dependency) struct: the value is an uninterpreted function of the pointer
			// pointer to an opaque (dependency) struct: the value lives in the pointer-cell array of its type,
			// like the target of any other non-struct pointer (so &x / *p / deref(p) in specs agree)
			key := "P:" + typeShortName(n)
			arr := c.heapGet(st, key, arraySort(sV, sV))
			return Term{S: sSel(arr.S, p.S), Sort: sV, T: n}
		}
		var parts []string
		for i := 0; i < stt.NumFields(); i++ {
			arr := c.fieldArr(st, n, stt.Field(i))
			parts = append(parts, sSel(arr.S, p.S))
		}
		return Term{S: sApp(so.ctor(), parts...), Sort: so, T: n}
	}
	if pt, ok := p.T.Underlying().(*types.Pointer); ok {
		c.nilCheck(st, p, pos, "*")
		key := "P:" + typeShortName(pt.Elem())
		arr := c.heapGet(st, key, arraySort(sV, c.e.d.sortOf(pt.Elem())))
		t := Term{S: sSel(arr.S, p.S), Sort: arr.Sort.Elem, T: pt.Elem()}
		c.readFacts(st, t)
		return t
	}
	panic(unsup("deref of %v", p.T))
}

func (c *FnCtx) addressOf(st *State, x ast.Expr) Term {
	switch y := x.(type) {
	case *ast.CompositeLit:
		t := c.typeOf(y)
		n, stt, _ := derefNamedStruct(t)
		if n == nil {
			panic(unsup("&composite of %v", t))
		}
		if !c.e.d.modelled(n) {
			r := c.newRef(st, "ext_"+n.Obj().Name())
			return Term{S: r, Sort: sV, T: types.NewPointer(t)}
		}
		vals := c.structLitFields(st, y, stt)
		r := c.newRef(st, n.Obj().Name())
		ref := Term{S: r, Sort: sV, T: types.NewPointer(t)}
		c.tagRef(st, ref)
		for i := 0; i < stt.NumFields(); i++ {
			if c.e.isInlineObj(n, stt.Field(i)) {
				sub := c.inlineRef(st, n, stt.Field(i), ref)
				c.allocInline(st, sub)
				c.writeStructTo(st, sub, vals[i], x.Pos(), true)
				continue
			}
			c.writeField(st, ref, n, stt.Field(i), vals[i], x.Pos(), true)
		}
		return ref
	case *ast.ParenExpr:
		return c.addressOf(st, y.X)
	case *ast.SelectorExpr:
		// &x.f : an opaque pointer determined by the object and the field; accesses through it are not modelled
		if sel, ok := c.info.Selections[y]; ok && sel.Kind() == types.FieldVal {
			if v := c.evalExpr(st, y); v.Sort.Kind == KV && v.T != nil {
				if pt, ok := v.T.(*types.Pointer); ok && types.Identical(pt.Elem(), c.typeOf(y)) {
					return v // inline-object field: its value term already is the sub-object's reference
				}
			}
			base := c.evalExpr(st, y.X)
			if base.Sort.Kind == KV {
				fn := "fieldaddr." + sanitize(y.Sel.Name)
				c.e.d.declFun(fn, "V", "V")
				t := Term{S: sApp(fn, base.S), Sort: sV, T: types.NewPointer(c.typeOf(y))}
				st.assume(sNot(sEq(t.S, "nilV")))
				c.e.trusted["address of field "+y.Sel.Name+" taken in "+shortFn(c.fi.Key)+": accesses through that pointer are not modelled"] = true
				return t
			}
		}
	case *ast.Ident:
		// &local of a non-struct (or opaque) type: the local moves into a heap cell (P:<type>[ref]); reads
		// and writes of the local go through the cell from here on, so aliasing through the pointer is modelled
		if v, ok := c.info.ObjectOf(y).(*types.Var); ok && !v.IsField() && !(v.Pkg() != nil && v.Parent() == v.Pkg().Scope()) {
			if cur, ok := st.vars[v]; ok {
				if cur.Cell {
					cur.Cell = false
					return cur
				}
				if c.escaping[v] && cur.Sort.Kind == KV {
					// a struct local that lives on the heap because its address is taken (escape.go): &x is its reference
					if nn, _, isPtr := derefNamedStruct(v.Type()); nn != nil && !isPtr && c.e.d.modelled(nn) {
						cur.T = types.NewPointer(v.Type())
						return cur
					}
				}
				if nn, _, isPtr := derefNamedStruct(v.Type()); nn == nil || isPtr || !c.e.d.modelled(nn) {
					pt := types.NewPointer(v.Type())
					ref := Term{S: c.newRef(st, "cell_"+v.Name()), Sort: sV, T: pt}
					c.tagRef(st, ref)
					key := "P:" + typeShortName(v.Type())
					arr := c.heapGet(st, key, arraySort(sV, c.e.d.sortOf(v.Type())))
					c.heapSet(st, key, Term{S: sSto(arr.S, ref.S, cur.S), Sort: arr.Sort})
					cell := ref
					cell.Cell = true
					st.vars[v] = cell
					return ref
				}
			}
		}
		if v, ok := c.info.ObjectOf(y).(*types.Var); ok {
			n := c.e.d.freshConst("addr_"+v.Name(), sV)
			st.assume(sNot(sEq(n, "nilV")))
			c.e.trusted["address of local "+v.Name()+" taken in "+shortFn(c.fi.Key)+": accesses through that pointer are not modelled"] = true
			return Term{S: n, Sort: sV, T: types.NewPointer(v.Type())}
		}
	}
	panic(unsup("address-of %T at %s", x, c.pos(x.Pos())))
}

func (c *FnCtx) structLitFields(st *State, lit *ast.CompositeLit, stt *types.Struct) []Term {
	d := c.e.d
	vals := make([]Term, stt.NumFields())
	for i := range vals {
		f := stt.Field(i)
		so := d.sortOf(f.Type())
		vals[i] = Term{S: d.zero(so), Sort: so, T: f.Type()}
	}
	for i, el := range lit.Elts {
		if kv, ok := el.(*ast.KeyValueExpr); ok {
			name := kv.Key.(*ast.Ident).Name
			found := false
			for j := 0; j < stt.NumFields(); j++ {
				if stt.Field(j).Name() == name {
					vals[j] = c.coerce(st, c.evalExpr(st, kv.Value), stt.Field(j).Type())
					found = true
				}
			}
			if !found {
				panic(unsup("unknown field %s in literal", name))
			}
		} else {
			vals[i] = c.coerce(st, c.evalExpr(st, el), stt.Field(i).Type())
		}
	}
	return vals
}

func (c *FnCtx) compositeLit(st *State, lit *ast.CompositeLit) Term {
	d := c.e.d
	t := c.typeOf(lit)
	switch u := t.Underlying().(type) {
	case *types.Struct:
		so := d.sortOf(t)
		if so.Kind != KStruct {
			// opaque external struct value
			return c.fresh(st, "extstruct", t)
		}
		vals := c.structLitFields(st, lit, u)
		var parts []string
		for _, v := range vals {
			parts = append(parts, v.S)
		}
		return Term{S: sApp(so.ctor(), parts...), Sort: so, T: t}
	case *types.Slice:
		so := d.sortOf(t)
		cur := Term{S: d.zero(so), Sort: so, T: t}
		for _, el := range lit.Elts {
			if _, ok := el.(*ast.KeyValueExpr); ok {
				panic(unsup("keyed slice literal"))
			}
			var v Term
			if cl, ok := el.(*ast.CompositeLit); ok && cl.Type == nil {
				v = c.compositeLitTyped(st, cl, u.Elem())
			} else {
				v = c.coerce(st, c.evalExpr(st, el), u.Elem())
			}
			cur = Term{S: sliceAppend(cur, v.S), Sort: so, T: t}
		}
		return cur
	case *types.Map:
		r := c.newRef(st, "map")
		m := Term{S: r, Sort: sV, T: t}
		c.tagRef(st, m)
		c.mapInit(st, m, u)
		for _, el := range lit.Elts {
			kv := el.(*ast.KeyValueExpr)
			k := c.coerce(st, c.evalExpr(st, kv.Key), u.Key())
			v := c.coerce(st, c.evalExpr(st, kv.Value), u.Elem())
			c.mapWrite(st, m, u, k, v, lit.Pos())
		}
		return m
	}
	panic(unsup("composite literal of %v", t))
}

func (c *FnCtx) compositeLitTyped(st *State, lit *ast.CompositeLit, t types.Type) Term {
	// elided type in nested literal
	if pt, ok := t.Underlying().(*types.Pointer); ok {
		// []*T{{...}}: the element is &T{...}
		c.info.Types[lit] = types.TypeAndValue{Type: pt.Elem()}
		return c.addressOf(st, lit)
	}
	c.info.Types[lit] = types.TypeAndValue{Type: t}
	return c.compositeLit(st, lit)
}

func (c *FnCtx) evalBinary(st *State, x *ast.BinaryExpr) Term {
	switch x.Op {
	case token.LAND, token.LOR:
		l := c.evalExpr(st, x.X)
		// evaluate right operand under the guard of the left one
		mark := len(st.path)
		guard := l.S
		if x.Op == token.LOR {
			guard = sNot(l.S)
		}
		st.assume(guard)
		if containsEffectfulCall(c, x.Y) {
			panic(unsup("call with side effects on the right of %s at %s", x.Op, c.pos(x.Pos())))
		}
		r := c.evalExpr(st, x.Y)
		added := append([]string(nil), st.path[mark+1:]...)
		st.path = st.path[:mark]
		for _, a := range added {
			st.assume(sImp(guard, a))
		}
		op := "and"
		if x.Op == token.LOR {
			op = "or"
		}
		return Term{S: "(" + op + " " + l.S + " " + r.S + ")", Sort: sBool, T: c.typeOf(x)}
	}
	l := c.evalExpr(st, x.X)
	r := c.evalExpr(st, x.Y)
	rt := c.typeOf(x)
	switch x.Op {
	case token.EQL, token.NEQ:
		// unify nil / interface boxing
		lt, rtt := c.typeOf(x.X), c.typeOf(x.Y)
		if l.S == "nilV" && l.Sort.Kind == KV && r.Sort.Kind == KSlice {
			s := sEq(sliceLen(r), "0")
			if x.Op == token.NEQ {
				s = sNot(s)
			}
			c.e.trusted["nil-ness of slices approximated by len == 0"] = true
			return Term{S: s, Sort: sBool, T: rt}
		}
		if r.S == "nilV" && r.Sort.Kind == KV && l.Sort.Kind == KSlice {
			s := sEq(sliceLen(l), "0")
			if x.Op == token.NEQ {
				s = sNot(s)
			}
			c.e.trusted["nil-ness of slices approximated by len == 0"] = true
			return Term{S: s, Sort: sBool, T: rt}
		}
		if !sameSort(l.Sort, r.Sort) {
			if l.Sort.Kind == KV {
				r = c.coerce(st, r, lt)
			} else if r.Sort.Kind == KV {
				l = c.coerce(st, l, rtt)
			}
		}
		if !sameSort(l.Sort, r.Sort) {
			panic(unsup("comparison of %s and %s", l.Sort.SMT(), r.Sort.SMT()))
		}
		s := sEq(l.S, r.S)
		if x.Op == token.NEQ {
			s = sNot(s)
		}
		return Term{S: s, Sort: sBool, T: rt}
	case token.LSS, token.LEQ, token.GTR, token.GEQ:
		if l.Sort.Kind != KInt {
			panic(unsup("ordering on non-integers"))
		}
		return Term{S: "(" + x.Op.String() + " " + l.S + " " + r.S + ")", Sort: sBool, T: rt}
	case token.ADD, token.SUB, token.MUL, token.QUO, token.REM:
		if l.Sort.Kind != KInt {
			if x.Op == token.ADD && l.Sort.Kind == KV {
				// string concatenation: opaque
				c.e.d.declFun("strcat", "V V", "V")
				return Term{S: sApp("strcat", l.S, r.S), Sort: sV, T: rt}
			}
			panic(unsup("arithmetic on non-integers"))
		}
		return c.arith(st, x.Op, l, r, rt, x.Pos())
	}
	panic(unsup("binary operator %s", x.Op))
}

func (c *FnCtx) arith(st *State, op token.Token, l, r Term, rt types.Type, pos token.Pos) Term {
	var s string
	switch op {
	case token.ADD:
		s = "(+ " + l.S + " " + r.S + ")"
	case token.SUB:
		s = "(- " + l.S + " " + r.S + ")"
	case token.MUL:
		s = "(* " + l.S + " " + r.S + ")"
	case token.QUO:
		if c.safety {
			c.oblige(st, "div-zero", "", pos, sNot(sEq(r.S, "0")), "divisor non-zero")
		}
		// Go truncates toward zero; for non-negative operands this is SMT div
		s = "(div " + l.S + " " + r.S + ")"
		c.e.trusted["integer division modelled as SMT div (exact for non-negative operands)"] = true
	case token.REM:
		if c.safety {
			c.oblige(st, "div-zero", "", pos, sNot(sEq(r.S, "0")), "divisor non-zero")
		}
		s = "(mod " + l.S + " " + r.S + ")"
	}
	t := Term{S: s, Sort: sInt, T: rt}
	if rg := intRange(rt, s); rg != "true" && (op == token.ADD || op == token.SUB || op == token.MUL) {
		if c.overflow {
			c.oblige(st, "no-overflow", op.String(), pos, rg, "machine arithmetic does not wrap")
		} else {
			c.e.trusted["machine arithmetic treated as mathematical in "+c.fi.Key] = true
		}
	}
	return t
}

func containsEffectfulCall(c *FnCtx, e ast.Expr) bool {
	found := false
	ast.Inspect(e, func(n ast.Node) bool {
		call, ok := n.(*ast.CallExpr)
		if !ok {
			return true
		}
		if tv, ok := c.info.Types[call.Fun]; ok && tv.IsType() {
			return true
		}
		if id, ok := call.Fun.(*ast.Ident); ok {
			if _, ok := c.info.Uses[id].(*types.Builtin); ok {
				return true
			}
		}
		key, _ := c.calleeKey(call)
		if key == "" {
			found = true
			return false
		}
		if dropped, _ := isDroppedCallee(key); dropped {
			return true
		}
		if fc, ok := c.e.contracts[key]; ok {
			if fc.Pure || (fc.HasMod && len(fc.Modifies) == 0) || fc.Inline {
				return true
			}
		} else if c.lenient() {
			return true // abstracted as effect-free in lenient mode (listed in the trusted base when executed)
		}
		found = true
		return false
	})
	return found
}

// ---- maps ----

func (c *FnCtx) mapInit(st *State, m Term, mt *types.Map) {
	dom, _, dk, _ := c.mapArrs(st, mt)
	c.heapSet(st, dk, Term{S: sSto(dom.S, m.S, c.e.d.zero(dom.Sort.Elem)), Sort: dom.Sort})
}

func (c *FnCtx) mapRead(st *State, m Term, mt *types.Map, k Term) (val Term, ok Term) {
	c.hashableKey(st, mt, k, "read")
	dom, valA, _, _ := c.mapArrs(st, mt)
	in := sSel(sSel(dom.S, m.S), k.S)
	vs := valA.Sort.Elem.Elem
	raw := Term{S: sSel(sSel(valA.S, m.S), k.S), Sort: vs, T: mt.Elem()}
	mark := len(st.path)
	c.readFacts(st, raw)
	added := append([]string(nil), st.path[mark:]...)
	st.path = st.path[:mark]
	for _, a := range added {
		st.assume(sImp(in, a))
	}
	// membership already decided on this path: no ite needed (keeps terms matchable)
	notIn := sNot(in)
	for _, a := range st.path {
		if a == in {
			return raw, Term{S: "true", Sort: sBool, T: types.Typ[types.Bool]}
		}
		if a == notIn {
			return Term{S: c.e.d.zero(vs), Sort: vs, T: mt.Elem()}, Term{S: "false", Sort: sBool, T: types.Typ[types.Bool]}
		}
	}
	v := Term{S: sIte(in, raw.S, c.e.d.zero(vs)), Sort: vs, T: mt.Elem()}
	return v, Term{S: in, Sort: sBool, T: types.Typ[types.Bool]}
}

func (c *FnCtx) mapWrite(st *State, m Term, mt *types.Map, k, v Term, pos token.Pos) {
	if c.safety && !c.isKnownNonNil(st, m) {
		c.oblige(st, "nil-map-write", "", pos, sNot(sEq(m.S, "nilV")), "assignment to entry in nil map")
	}
	c.hashableKey(st, mt, k, "write")
	dom, val, dk, vk := c.mapArrs(st, mt)
	c.heapSet(st, dk, Term{S: sSto(dom.S, m.S, sSto(sSel(dom.S, m.S), k.S, "true")), Sort: dom.Sort})
	c.heapSet(st, vk, Term{S: sSto(val.S, m.S, sSto(sSel(val.S, m.S), k.S, v.S)), Sort: val.Sort})
}

func (c *FnCtx) mapDelete(st *State, m Term, mt *types.Map, k Term) {
	c.hashableKey(st, mt, k, "delete")
	dom, _, dk, _ := c.mapArrs(st, mt)
	c.heapSet(st, dk, Term{S: sSto(dom.S, m.S, sSto(sSel(dom.S, m.S), k.S, "false")), Sort: dom.Sort})
}

// ---- field writes ----

func (c *FnCtx) writeField(st *State, ref Term, n *types.Named, f *types.Var, v Term, pos token.Pos, init bool) {
	arr := c.fieldArr(st, n, f)
	if !sameSort(arr.Sort.Elem, v.Sort) {
		panic(unsup("field write sort mismatch %s.%s: %s vs %s", n.Obj().Name(), f.Name(), arr.Sort.Elem.SMT(), v.Sort.SMT()))
	}
	c.heapSet(st, fieldKey(n, f.Name()), Term{S: sSto(arr.S, ref.S, v.S), Sort: arr.Sort})
	if !init {
		c.runOnWrite(st, n, f, ref, pos)
	}
}

func (c *FnCtx) runOnWrite(st *State, n *types.Named, f *types.Var, ref Term, pos token.Pos) {
	k := n.Obj().Pkg().Path() + "." + n.Obj().Name() + "." + f.Name()
	for _, ow := range c.e.onwrites[k] {
		env := map[string]Term{ow.Var: ref}
		sc := &SpecCtx{c: c, pkg: c.e.pkgs[n.Obj().Pkg().Path()], env: env, st: st, old: c.entry}
		for _, up := range ow.Updates {
			g := c.e.ghostVar(up.Target)
			if g == nil {
				panic(toolErr("onwrite: unknown ghost %s", up.Target))
			}
			v := sc.eval(up.Val)
			c.heapSet(st, "G:"+up.Target, Term{S: v.S, Sort: g.Sort})
		}
	}
}
