package main

// Replay of a solver model against the real code (DESIGN.md §2.8): per contract family a Go test
// template under /verif/replay/templates is instantiated with the model values, injected into the
// package with `go test -overlay` (nothing is written to /repo) and run.

func (e *Engine) replayOnRealCode(dir, base string, g *oblGroup, pack *Pack) (reproduced bool, note string, testFile string) {
	if len(pack.Replays) == 0 {
		return false, "no replay template for this contract family", ""
	}
	return runReplayTemplate(e, dir, base, g, pack)
}
