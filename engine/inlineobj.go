package main

import (
	"fmt"
	"strings"
	"go/token"
	"go/types"
)

// Inline-object fields (`inlineobj Type.field` in a package's contract file).
//
// A struct-VALUED field whose type is a modelled struct with pointer-receiver methods (rl.remoteQueue.consume(),
// rl.pathTracker.recordRemoteLoadAttempt(...)) is represented as a reference to a sub-object that is fixed for the
// life of the owner: inl.T.f(o) is never nil, is a function of the owner only (so it can never be re-pointed), and
// is injective (two owners never share a sub-object). The sub-object's own fields live in the ordinary per-field
// arrays of its type, so &o.f, pointer-receiver calls on o.f and reads/writes of o.f.g all agree. Assigning the whole
// struct (o.f = T{...}) overwrites the sub-object's fields. This is exactly Go's semantics for an interior struct,
// except that a sub-object is not known to differ from a separately allocated *T (no function under contract mixes
// the two; stated in the trusted base).

func inlineKey(n *types.Named, f *types.Var) string {
	return n.Obj().Pkg().Path() + "." + n.Obj().Name() + "." + f.Name()
}

func (e *Engine) isInlineObj(n *types.Named, f *types.Var) bool {
	if n == nil || n.Obj().Pkg() == nil || len(e.inlineObj) == 0 {
		return false
	}
	return e.inlineObj[inlineKey(n, f)]
}

// inlineRef: the reference of owner's sub-object for field f (typed as *FieldType).
func (c *FnCtx) inlineRef(st *State, n *types.Named, f *types.Var, owner Term) Term {
	d := c.e.d
	fn := "inl." + sanitize(n.Obj().Name()+"."+f.Name())
	inv := "inlowner." + sanitize(n.Obj().Name()+"."+f.Name())
	if _, ok := d.funs[fn]; !ok {
		d.declFun(fn, "V", "V")
		d.declFun(inv, "V", "V")
		d.addAxiom(fn+".inj", fmt.Sprintf("(forall ((o V)) (! (and (not (= (%s o) nilV)) (= (%s (%s o)) o)) :pattern ((%s o))))", fn, inv, fn, fn))
		c.e.trusted["inline struct field "+n.Obj().Name()+"."+f.Name()+" modelled as a fixed, non-nil, per-owner sub-object (not known distinct from separately allocated objects of its type)"] = true
	}
	t := Term{S: sApp(fn, owner.S), Sort: sV, T: types.NewPointer(f.Type())}
	if st != nil && !strings.Contains(owner.S, "$") {
		// ground instances of the axiom (owner is not a bound variable of a quantifier, which are named x$n)
		st.assume(sNot(sEq(t.S, "nilV")))
		st.assume(sEq(sApp(inv, t.S), owner.S))
	}
	return t
}

// writeStructTo overwrites every field of the object at ref with the fields of the struct value val.
func (c *FnCtx) writeStructTo(st *State, ref Term, val Term, pos token.Pos, init bool) {
	n, stt, _ := derefNamedStruct(ref.T)
	if n == nil || val.Sort.Kind != KStruct {
		panic(unsup("whole-struct write to %v", ref.T))
	}
	for i := 0; i < stt.NumFields(); i++ {
		f := stt.Field(i)
		fv := Term{S: sApp(val.Sort.sel(f.Name()), val.S), Sort: val.Sort.Fields[i].Sort, T: f.Type()}
		if c.e.isInlineObj(n, f) {
			c.writeStructTo(st, c.inlineRef(st, n, f, ref), fv, pos, init)
			continue
		}
		c.writeField(st, ref, n, f, fv, pos, init)
	}
}

// allFieldMods: a whole-struct write to an inline-object field modifies every field of the sub-object.
func (c *FnCtx) allFieldMods(t types.Type, ms *modSet) {
	n, stt, _ := derefNamedStruct(t)
	if n == nil {
		return
	}
	for i := 0; i < stt.NumFields(); i++ {
		f := stt.Field(i)
		if c.e.isInlineObj(n, f) {
			c.allFieldMods(f.Type(), ms)
			continue
		}
		ms.heap[fieldKey(n, f.Name())] = arraySort(sV, c.e.d.sortOf(f.Type()))
	}
}

// allocInline marks the sub-object of a freshly allocated owner as freshly allocated too (it comes into being with
// its owner), so that initialising its fields is covered by "freshly allocated" in frame conditions.
func (c *FnCtx) allocInline(st *State, sub Term) {
	al := c.allocArr(st)
	st.assume(sNot(sSel(al.S, sub.S)))
	c.heapSet(st, "alloc", Term{S: sSto(al.S, sub.S, "true"), Sort: al.Sort})
}

// crossPackage: the callee (by full key "importpath.Func" / "importpath.Type.Method") lives in another package than
// the function being verified.
func (c *FnCtx) crossPackage(calleeKey string) bool {
	fi := c.e.funcs[calleeKey]
	if fi == nil || fi.Pkg == nil || c.fi == nil || c.fi.Pkg == nil {
		return false
	}
	return fi.Pkg.PkgPath != c.fi.Pkg.PkgPath
}
