package main

import (
	"bytes"
	"context"
	"fmt"
	"os"
	"os/exec"
	"path/filepath"
	"sort"
	"strings"
	"sync"
	"time"
)

type Backend struct {
	Name string
	Args func(file string, timeoutS int) []string
	Bin  string
	Cvc5 bool
}

var backends = []Backend{
	{Name: "z3-new", Bin: "z3-new", Args: func(f string, t int) []string { return []string{fmt.Sprintf("-T:%d", t), f} }},
	{Name: "z3", Bin: "z3", Args: func(f string, t int) []string { return []string{fmt.Sprintf("-T:%d", t), f} }},
	{Name: "cvc5", Bin: "cvc5", Cvc5: true, Args: func(f string, t int) []string {
		return []string{"--lang=smt2", fmt.Sprintf("--tlimit=%d", t*1000), f}
	}},
}

// z3-new without the array extensionality axioms: a weaker theory, so only `unsat` answers are used
// (a proof that does not need extensionality is a proof); structs and slices are datatypes over arrays
// and equalities between them otherwise drown the solver in extensionality splits.
var z3noext = Backend{Name: "z3-new/noext", Bin: "z3-new", Args: func(f string, t int) []string {
	return []string{fmt.Sprintf("-T:%d", t), "smt.array.extensional=false", f}
}}

func (e *Engine) queryText(o *Obligation, cvc5 bool) string {
	var b strings.Builder
	if cvc5 {
		b.WriteString("(set-option :produce-models true)\n(set-logic ALL)\n")
	} else {
		b.WriteString("(set-option :produce-models true)\n")
	}
	fmt.Fprintf(&b, "; obligation %s :: %s\n; %s\n; at %s\n", o.Fn, o.Name, o.Desc, o.Pos)
	d := o.D
	if d == nil {
		d = e.d
	}
	b.WriteString(d.prelude())
	var hide []string
	if fc := e.contracts[o.Fn]; fc != nil {
		hide = fc.Hide
	}
	for _, r := range o.RawPre {
		b.WriteString(r)
		b.WriteString("\n")
	}
	assumps := o.Assumps
	if o.NoAxioms {
		assumps = o.PathOnly
	} else {
		b.WriteString(d.axiomsForHide(strings.Join(o.Assumps, "\n")+"\n"+o.Goal, hide))
	}
	for _, a := range assumps {
		b.WriteString("(assert ")
		b.WriteString(a)
		b.WriteString(")\n")
	}
	fmt.Fprintf(&b, "(assert (not %s))\n(check-sat)\n", o.Goal)
	if !cvc5 && len(o.Watch) > 0 {
		var ks []string
		for k := range o.Watch {
			ks = append(ks, k)
		}
		sort.Strings(ks)
		var ts []string
		for _, k := range ks {
			ts = append(ts, o.Watch[k])
		}
		fmt.Fprintf(&b, "(get-value (%s))\n", strings.Join(ts, " "))
	}
	return b.String()
}

func runSolver(ctx context.Context, be Backend, file string, timeoutS int) (status string, out string, secs float64) {
	t0 := time.Now()
	cctx, cancel := context.WithTimeout(ctx, time.Duration(timeoutS+3)*time.Second)
	defer cancel()
	cmd := exec.CommandContext(cctx, be.Bin, be.Args(file, timeoutS)...)
	var buf bytes.Buffer
	cmd.Stdout = &buf
	cmd.Stderr = &buf
	cmd.Run()
	secs = time.Since(t0).Seconds()
	out = buf.String()
	first := ""
	for _, ln := range strings.Split(out, "\n") {
		ln = strings.TrimSpace(ln)
		if ln == "" || strings.HasPrefix(ln, "WARNING") || strings.HasPrefix(ln, "(warning") {
			continue
		}
		first = ln
		break
	}
	switch first {
	case "unsat", "sat", "unknown":
		status = first
	case "timeout":
		status = "timeout"
	default:
		if cctx.Err() != nil {
			status = "timeout"
		} else if strings.Contains(out, "timeout") || strings.Contains(out, "interrupted") {
			status = "timeout"
		} else {
			status = "error"
		}
	}
	return
}

// parseValues parses "((t1 v1) (t2 v2))" against the ordered watch list.
func parseValues(out string, o *Obligation) map[string]string {
	i := strings.Index(out, "((")
	if i < 0 {
		return nil
	}
	s := out[i:]
	// tokenise top-level pairs
	var ks []string
	for k := range o.Watch {
		ks = append(ks, k)
	}
	sort.Strings(ks)
	res := map[string]string{}
	depth := 0
	start := -1
	var pairs []string
	for j, ch := range s {
		if ch == '(' {
			depth++
			if depth == 2 {
				start = j
			}
		}
		if ch == ')' {
			if depth == 2 && start >= 0 {
				pairs = append(pairs, s[start:j+1])
				start = -1
			}
			depth--
			if depth == 0 {
				break
			}
		}
	}
	for idx, p := range pairs {
		if idx >= len(ks) {
			break
		}
		term := o.Watch[ks[idx]]
		body := strings.TrimSpace(p[1 : len(p)-1])
		if strings.HasPrefix(body, term) {
			res[ks[idx]] = strings.TrimSpace(body[len(term):])
		} else {
			res[ks[idx]] = body
		}
	}
	return res
}

type SolveStats struct {
	mu        sync.Mutex
	ByBackend map[string]*BackendStat
}

type BackendStat struct {
	Discharged int
	Calls      int
	Seconds    float64
}

func (s *SolveStats) add(be string, secs float64, discharged bool) {
	s.mu.Lock()
	defer s.mu.Unlock()
	if s.ByBackend == nil {
		s.ByBackend = map[string]*BackendStat{}
	}
	b := s.ByBackend[be]
	if b == nil {
		b = &BackendStat{}
		s.ByBackend[be] = b
	}
	b.Calls++
	b.Seconds += secs
	if discharged {
		b.Discharged++
	}
}

// solveAll discharges the obligations in parallel, racing the back ends.
func (e *Engine) solveAll(obls []*Obligation, workDir string, stats *SolveStats, allBackends bool) {
	os.MkdirAll(workDir, 0o755)
	sem := make(chan struct{}, 12)
	var wg sync.WaitGroup
	// identical queries are solved once
	type key struct{ q string }
	cache := map[string]*Obligation{}
	var cmu sync.Mutex
	for i, o := range obls {
		wg.Add(1)
		go func(i int, o *Obligation) {
			defer wg.Done()
			sem <- struct{}{}
			defer func() { <-sem }()
			q := e.queryText(o, false)
			o.Query = q
			ck := strings.Join(o.Assumps, "\n") + "\n|-" + o.Goal
			cmu.Lock()
			if prev, ok := cache[ck]; ok && prev.Status != "" {
				o.Status, o.Backend, o.Seconds, o.Model, o.Raw = prev.Status, prev.Backend+"(cached)", 0, prev.Model, prev.Raw
				cmu.Unlock()
				return
			}
			cmu.Unlock()
			f := filepath.Join(workDir, fmt.Sprintf("q%05d.smt2", i))
			os.WriteFile(f, []byte(q), 0o644)
			fc := filepath.Join(workDir, fmt.Sprintf("q%05d.cvc5.smt2", i))
			want := "unsat"
			ctx := context.Background()
			if o.ExpectSat {
				// vacuity / reachability guard: passes unless the assumptions are refutable
				st, out, secs := runSolver(ctx, backends[0], f, 2)
				stats.add("z3-new", secs, st != "unsat")
				o.Status, o.Backend, o.Raw, o.Seconds = st, "z3-new", out, secs
				if st == "unsat" && o.PathOnly != nil {
					// refuted: by the program and its contracts alone (dead code under the contracts: acceptable, reported as
					// such), or only with the lemma library's axioms / instances (a contradiction there: not acceptable)?
					o2 := *o
					o2.NoAxioms = true
					f2 := filepath.Join(workDir, fmt.Sprintf("q%05d.noax.smt2", i))
					os.WriteFile(f2, []byte(e.queryText(&o2, false)), 0o644)
					st2, _, secs2 := runSolver(ctx, backends[0], f2, 4)
					stats.add("z3-new", secs2, true)
					os.Remove(f2)
					if st2 == "unsat" {
						o.Status = "dead"
						o.Raw = "unreachable under the contracts alone (no lemma-library axiom involved)"
					}
				}
				if o.Status != "unsat" {
					os.Remove(f)
				}
				return
			}
			// stage 0: z3-new without array extensionality, short budget; only unsat counts
			st, out, secs := runSolver(ctx, z3noext, f, 2)
			stats.add(z3noext.Name, secs, st == want)
			o.Seconds += secs
			stage1be := z3noext.Name
			if st != want {
				// stage 1: z3-new with a short budget (1 s), then z3-new and cvc5 raced for 4 s
				st, out, secs = runSolver(ctx, backends[0], f, 1)
				stats.add("z3-new", secs, st == want)
				o.Seconds += secs
				stage1be = "z3-new"
			}
			if st != want && !allBackends {
				// stage 1b: the same goal under the relevant assumptions only (sound: fewer hypotheses)
				sl := slicedAssumps(o)
				if sl == nil && os.Getenv("GSV_DEBUG_SLICE") != "" {
					fmt.Fprintf(os.Stderr, "slice %s: nothing to drop (%d)\n", o.Name, len(o.Assumps))
				}
				if sl != nil {
					o2 := *o
					o2.Assumps = sl
					o2.Watch = nil
					fs := filepath.Join(workDir, fmt.Sprintf("q%05d.sliced.smt2", i))
					os.WriteFile(fs, []byte(e.queryText(&o2, false)), 0o644)
					s2, out2, t2 := runSolver(ctx, z3noext, fs, min(e.timeoutS, 5))
					stats.add(z3noext.Name, t2, s2 == want)
					o.Seconds += t2
					if s2 == want {
						st, out, stage1be = s2, out2, z3noext.Name+"/sliced"
					}
					if os.Getenv("GSV_DEBUG_SLICE") != "" {
						fmt.Fprintf(os.Stderr, "slice %s: kept %d/%d -> %s %.1fs\n", o.Name, len(sl), len(o.Assumps), s2, t2)
					} else {
						os.Remove(fs)
					}
				}
			}
			if st != want && !allBackends {
				os.WriteFile(fc, []byte(e.queryText(o, true)), 0o644)
				type r1 struct {
					be, st, out string
					secs        float64
				}
				ch1 := make(chan r1, 2)
				c1, cancel1 := context.WithCancel(ctx)
				go func() {
					s2, o2, t2 := runSolver(c1, backends[0], f, min(e.timeoutS, 4))
					ch1 <- r1{"z3-new", s2, o2, t2}
				}()
				go func() {
					s2, o2, t2 := runSolver(c1, backends[2], fc, min(e.timeoutS, 4))
					ch1 <- r1{"cvc5", s2, o2, t2}
				}()
				for k := 0; k < 2; k++ {
					x := <-ch1
					stats.add(x.be, x.secs, x.st == want)
					if x.st == want && st != want {
						st, out, stage1be = x.st, x.out, x.be
						o.Seconds += x.secs
						cancel1()
					}
				}
				cancel1()
			}
			if st == want && !allBackends {
				o.Status, o.Backend, o.Raw = st, stage1be, out
			} else {
				// stage 2: race all three with the full budget
				os.WriteFile(fc, []byte(e.queryText(o, true)), 0o644)
				type r struct {
					be, st, out string
					secs        float64
				}
				ch := make(chan r, 3)
				cctx, cancel := context.WithCancel(ctx)
				racers := append(append([]Backend(nil), backends...), z3noext)
				// seed portfolio: quantifier-heavy goals are search-order sensitive; other seeds often
				// find in a fraction of a second what the default order misses
				for _, seed := range []int{1, 2, 3} {
					sd := seed
					racers = append(racers, Backend{Name: z3noext.Name, Bin: "z3-new", Args: func(f string, t int) []string {
						return []string{fmt.Sprintf("-T:%d", t), "smt.array.extensional=false", fmt.Sprintf("smt.random_seed=%d", sd), f}
					}})
				}
				ch = make(chan r, len(racers))
				for _, be := range racers {
					go func(be Backend) {
						file := f
						if be.Cvc5 {
							file = fc
						}
						s2, o2, t2 := runSolver(cctx, be, file, e.timeoutS)
						if be.Name == z3noext.Name && s2 == "sat" {
							s2 = "unknown" // a model of the weaker theory proves nothing
						}
						ch <- r{be.Name, s2, o2, t2}
					}(be)
				}
				var results []r
				decided := false
				for range racers {
					x := <-ch
					results = append(results, x)
					stats.add(x.be, x.secs, x.st == want)
					if !decided && (x.st == "unsat" || x.st == "sat") {
						if !(x.be == "cvc5" && x.st == "sat" && !o.ExpectSat) || true {
							o.Status, o.Backend, o.Raw = x.st, x.be, x.out
							o.Seconds += x.secs
							decided = true
							if !allBackends {
								cancel()
							} else {
								// thorough tier: the other back ends get a grace period to agree or disagree with the first
								// definite answer (a disagreement is a tool error); they are not waited for beyond it
								time.AfterFunc(8*time.Second, cancel)
							}
						}
					}
				}
				cancel()
				if allBackends {
					var ag []string
					for _, x := range results {
						ag = append(ag, x.be+"="+x.st)
					}
					sort.Strings(ag)
					o.Backend = strings.Join(ag, ",")
					// disagreement between definite answers is a tool error
					def := map[string]bool{}
					for _, x := range results {
						if x.st == "sat" || x.st == "unsat" {
							def[x.st] = true
						}
					}
					if len(def) > 1 {
						o.Status = "error"
						o.Raw = "solver disagreement: " + o.Backend
					}
				}
				if !decided {
					// prefer z3-new's verdict text
					o.Status = "unknown"
					for _, x := range results {
						if x.st == "timeout" {
							o.Status = "timeout"
						}
					}
					allErr := len(results) > 0
					for _, x := range results {
						o.Raw += "[" + x.be + "] " + strings.TrimSpace(x.out) + "\n"
						if x.st != "error" {
							allErr = false
						}
					}
					o.Backend = "none"
					if allErr {
						o.Status = "solver-error" // every back end rejected the query text: a generator bug, not a verdict
					}
				}
			}
			if o.Status == "sat" {
				o.Model = parseValues(o.Raw, o)
				if len(o.Model) == 0 && o.Backend != "z3-new" && o.Backend != "z3" {
					// get a model from z3 for reporting
					_, out2, _ := runSolver(ctx, backends[0], f, e.timeoutS)
					o.Model = parseValues(out2, o)
				}
			}
			cmu.Lock()
			cache[ck] = o
			cmu.Unlock()
			if o.Status == want && os.Getenv("GSV_KEEP_ALL") == "" {
				os.Remove(f)
				os.Remove(fc)
			}
		}(i, o)
	}
	wg.Wait()
}
