package main

// `gsv check <ID>`: run the contract pack of one property against /repo's working tree.

import (
	"context"
	"os/exec"
	"crypto/sha256"
	"encoding/hex"
	"encoding/json"
	"fmt"
	"os"
	"path/filepath"
	"regexp"
	"sort"
	"strconv"
	"strings"
	"time"
)

type Pack struct {
	Property   string   `json:"property"`
	Packages   []string `json:"packages"`
	Functions  []string `json:"functions"` // keys relative to the module path, e.g. "allocator.Allocator.Stats"
	Include    []string `json:"include"`   // regexps on "fn :: obligation-name :: desc"; empty = all
	Exclude    []string `json:"exclude"`
	Claim      string   `json:"claim"`
	NotDecided []string `json:"not_decided"`
	Assumes    []string `json:"assumptions"`
	Bounded    []string `json:"bounded"`
	TimeoutS   int      `json:"timeout_s"`
	Replays    []ReplayTemplate `json:"replay_templates"`
	Effects    []EffectRule     `json:"effects"`
	RecoverFirst []RecoverFirst `json:"recover_first"`
	Enclosed   []Enclosed       `json:"enclosed"`
	NonBlockingSends []NonBlockingSends `json:"nonblocking_sends"`
	DrainingSends    []DrainingSends    `json:"draining_sends"`
	AtomicSections   []AtomicSections   `json:"atomic_sections"`
	PanicSafeLocks   []PanicSafeLocks   `json:"panic_safe_locks"`
	SafetyRules []string        `json:"safety_rules"` // opt-in safety rules, e.g. "map-key-hashable" (see hashable.go)
}

type KnownFinding struct {
	Property   string `json:"property"`
	Function   string `json:"function"`   // regexp on function key
	Obligation string `json:"obligation"` // regexp on obligation name
	Status     string `json:"status"`     // "known" | "fixed"
	What       string `json:"what"`
	Commit     string `json:"commit,omitempty"`
}

type BaseEntry struct {
	ContractHash string   `json:"contract_hash"`
	Obligations  []string `json:"obligations"` // sorted "fn :: name", discharged on the unchanged tree
}

type Baseline map[string]*BaseEntry

func loadJSON(path string, v interface{}) error {
	b, err := os.ReadFile(path)
	if err != nil {
		return err
	}
	return json.Unmarshal(b, v)
}

func compileAll(pats []string) ([]*regexp.Regexp, error) {
	var out []*regexp.Regexp
	for _, p := range pats {
		r, err := regexp.Compile(p)
		if err != nil {
			return nil, err
		}
		out = append(out, r)
	}
	return out, nil
}

// contractHash: hash of every contract source the run depends on (repo contract files of the
// loaded module packages, /verif/contracts, the pack itself). Used to tell "the code changed"
// from "the contracts changed".
func (e *Engine) contractHash(packFile string) string {
	h := sha256.New()
	var files []string
	for _, cs := range e.csets {
		for _, k := range cs.FuncOrd {
			if f := cs.Funcs[k].File; f != "" {
				files = append(files, f)
			}
		}
	}
	deps, _ := filepath.Glob(filepath.Join(e.verifDir, "contracts", "deps", "*.gsc"))
	files = append(files, deps...)
	files = append(files, packFile)
	sort.Strings(files)
	seen := map[string]bool{}
	for _, f := range files {
		if seen[f] {
			continue
		}
		seen[f] = true
		b, _ := os.ReadFile(f)
		fmt.Fprintf(h, "%s\n%d\n", filepath.Base(f), len(b))
		h.Write(b)
	}
	return hex.EncodeToString(h.Sum(nil))[:16]
}

type oblGroup struct {
	Fn, Name, Desc, Pos string
	Insts           []*Obligation
	Passed          bool
	Bad             *Obligation
	Seconds         float64
	Backends        map[string]int
}

func cmdCheck(repo, verifDir, id, tier string) int {
	t0 := time.Now()
	packFile := filepath.Join(verifDir, "packs", id+".json")
	var pack Pack
	if err := loadJSON(packFile, &pack); err != nil {
		fmt.Fprintf(os.Stderr, "gsv: no pack for %s: %v\n", id, err)
		return 2
	}
	seed := 0
	if s := os.Getenv("VERIF_SEED"); s != "" {
		seed, _ = strconv.Atoi(s)
	}
	inc, err1 := compileAll(pack.Include)
	exc, err2 := compileAll(pack.Exclude)
	if err1 != nil || err2 != nil {
		fmt.Fprintln(os.Stderr, "gsv: bad filter regexp in pack", err1, err2)
		return 2
	}
	currentPackID = id
	e, err := loadEngine(repo, verifDir, pack.Packages)
	if err != nil {
		fmt.Fprintln(os.Stderr, "gsv: load:", err)
		writeToolErrorEvidence(verifDir, id, tier, seed, "load error: "+err.Error(), time.Since(t0).Seconds())
		return 2
	}
	e.tier = tier
	for _, r := range pack.SafetyRules {
		switch r {
		case "map-key-hashable":
			hashableRuleOn = true
		default:
			fmt.Fprintln(os.Stderr, "gsv: unknown safety rule in pack:", r)
			return 2
		}
	}
	e.timeoutS = 30
	if pack.TimeoutS > 0 {
		e.timeoutS = pack.TimeoutS
	}
	if tier == "thorough" {
		e.timeoutS *= 3
	}
	var known []KnownFinding
	loadJSON(filepath.Join(verifDir, "known_findings.json"), &known)
	base := Baseline{}
	loadJSON(filepath.Join(verifDir, "baseline_obligations.json"), &base)
	be := base[id]
	haveBase := be != nil
	chash := e.contractHash(packFile)

	// 1. generate obligations
	var all []*Obligation
	var fnErrs []string
	var fnsUnder []string
	paths := 0
	for _, rel := range pack.Functions {
		key := modPath + "/" + rel
		if _, ok := e.contracts[key]; !ok {
			key = e.resolveKey(rel)
		}
		res := e.verifyFunc(key)
		if res.Err != nil {
			fnErrs = append(fnErrs, fmt.Sprintf("%s: %v", rel, res.Err))
			continue
		}
		if res.Assumed {
			continue
		}
		fnsUnder = append(fnsUnder, rel)
		paths += res.Paths
		for _, o := range res.Obls {
			label := o.Fn + " :: " + o.Name + " :: " + o.Desc
			ok := len(inc) == 0
			for _, r := range inc {
				if r.MatchString(label) {
					ok = true
				}
			}
			for _, r := range exc {
				if r.MatchString(label) {
					ok = false
				}
			}
			if o.Kind == "cover" {
				ok = true
			}
			if ok {
				all = append(all, o)
			}
		}
	}
	// vacuity guard on the lemma library itself: the library axioms in scope of a function, asserted together on top of
	// the engine's theory of sequences / sets / maps, must not be refutable (one query per distinct set of axioms)
	{
		seenSet := map[string]bool{}
		seenD := map[*Decls]bool{}
		for _, o := range all {
			d := o.D
			if d == nil || seenD[d] {
				continue
			}
			seenD[d] = true
			var names, forms []string
			for i, name := range d.axiomName {
				if !strings.HasPrefix(name, "axiom.") {
					continue
				}
				for _, tr := range strings.Split(d.axiomTrig[i], "|") {
					if _, ok := d.funs[tr]; ok {
						names = append(names, strings.TrimPrefix(name, "axiom."))
						forms = append(forms, d.axioms[i])
						break
					}
				}
			}
			key := strings.Join(names, ",")
			if len(names) == 0 || seenSet[key] {
				continue
			}
			seenSet[key] = true
			all = append(all, &Obligation{Fn: "(lemma library)", Name: "cover:axioms:" + key, Kind: "cover", Desc: "the lemma-library axioms in scope are jointly satisfiable",
				Assumps: forms, RawPre: edgeInstances(forms, d), Goal: "false", ExpectSat: true, D: d})
		}
	}
	if len(fnErrs) > 0 {
		// a function under contract could not be turned into obligations: tool error, not a verdict
		for _, fe := range fnErrs {
			fmt.Printf("UNDECIDED property=%s %s\n", id, fe)
		}
	}
	// 2. solve
	work, _ := os.MkdirTemp("", "gsv-"+id+"-")
	defer os.RemoveAll(work)
	var stats SolveStats
	e.solveAll(all, work, &stats, tier == "thorough")
	// effect contracts discharged by the typed call scan (already decided: no solver involved)
	effObls := e.effectObligations(pack.Effects)
	effObls = append(effObls, e.recoverFirstObligations(pack.RecoverFirst)...)
	effObls = append(effObls, e.enclosedObligations(pack.Enclosed)...)
	effObls = append(effObls, e.nonBlockingSendObligations(pack.NonBlockingSends)...)
	effObls = append(effObls, e.drainingSendObligations(pack.DrainingSends)...)
	effObls = append(effObls, e.atomicSectionObligations(pack.AtomicSections)...)
	effObls = append(effObls, e.panicSafeLockObligations(pack.PanicSafeLocks)...)
	all = append(all, effObls...)
	if len(effObls) > 0 {
		stats.add("ast-scan", 0, true)
		stats.ByBackend["ast-scan"].Calls = len(effObls)
		stats.ByBackend["ast-scan"].Discharged = 0
		for _, o := range effObls {
			if o.Status == "unsat" {
				stats.ByBackend["ast-scan"].Discharged++
			}
		}
	}

	// 3. group by (fn, name)
	groups := map[string]*oblGroup{}
	var order []string
	for _, o := range all {
		k := shortFn(o.Fn) + " :: " + o.Name
		g := groups[k]
		if g == nil {
			g = &oblGroup{Fn: o.Fn, Name: o.Name, Desc: o.Desc, Pos: o.Pos, Passed: true, Backends: map[string]int{}}
			groups[k] = g
			order = append(order, k)
		}
		g.Insts = append(g.Insts, o)
		g.Seconds += o.Seconds
		g.Backends[strings.TrimSuffix(o.Backend, "(cached)")]++
		if !o.passed() {
			g.Passed = false
			if g.Bad == nil || (g.Bad.Status != "sat" && o.Status == "sat") {
				g.Bad = o
			}
		}
	}
	// an exit is reachable when at least ONE path to it is not contradictory (single paths may well be infeasible)
	for _, k := range order {
		g := groups[k]
		if g.Insts[0].Kind == "cover" && strings.HasPrefix(g.Name, "cover:exit") && !g.Passed {
			for _, o := range g.Insts {
				if o.passed() {
					g.Passed = true
				}
			}
		}
	}
	// 4. classify failures
	baseSet := map[string]bool{}
	if haveBase {
		for _, n := range be.Obligations {
			baseSet[n] = true
		}
	}
	replayDir := filepath.Join(verifDir, "out", "replay", id)
	os.RemoveAll(replayDir)
	violations := 0
	toolErrs := len(fnErrs)
	knownHits := map[int]bool{}
	discharged := 0
	nObl := 0
	var covers, coverOK int
	var samples []map[string]interface{}
	var knownObls []string
	var deadExits []string // exits no path reaches under the contracts alone (no lemma axiom involved): reported, not counted as proof of anything
	for _, k := range order {
		g := groups[k]
		if g.Insts[0].Kind == "cover" {
			covers++
			if g.Passed {
				coverOK++
				if strings.HasPrefix(g.Name, "cover:exit") {
					live := false
					for _, o := range g.Insts {
						if o.passed() && o.Status != "dead" {
							live = true
						}
					}
					if !live {
						deadExits = append(deadExits, k)
					}
				}
			} else {
				fmt.Printf("VACUOUS property=%s %s: the assumptions are contradictory (preconditions, or everything assumed along the path to an exit)\n", id, k)
				toolErrs++
			}
			continue
		}
		nObl++
		if g.Passed {
			discharged++
			if len(samples) < 4 {
				samples = append(samples, map[string]interface{}{"obligation": k, "at": g.Pos, "what": g.Desc, "instances": len(g.Insts), "verdict": "unsat", "backends": g.Backends,
					"goal_smt_head": head(g.Insts[0].Goal, 240)})
			}
			continue
		}
		// failed
		kf := -1
		for i, f := range known {
			if f.Property != id || f.Status != "known" {
				continue
			}
			if matchRE(f.Function, shortFn(g.Fn)) && matchRE(f.Obligation, g.Name) {
				kf = i
			}
		}
		if kf >= 0 {
			knownHits[kf] = true
			nObl-- // reported separately (known finding), not part of the proved set
			knownObls = append(knownObls, k)
			continue
		}
		if g.Bad != nil && g.Bad.Status == "solver-error" {
			fmt.Printf("TOOL-ERROR property=%s obligation %s: every solver rejected the query (generator error): %s\n", id, k, head(g.Bad.Raw, 200))
			toolErrs++
			continue
		}
		if haveBase && !baseSet[k] && chash != be.ContractHash {
			fmt.Printf("TOOL-ERROR property=%s new obligation %s fails and the contract files differ from the recorded baseline (regenerate the baseline)\n", id, k)
			toolErrs++
			continue
		}
		violations++
		rp := e.writeReplay(replayDir, id, g, &pack)
		suffix := ""
		if !rp.Reproduced {
			suffix = " no-failing-input-found"
		}
		fmt.Printf("VIOLATION property=%s replay=%s%s\n", id, rp.Path, suffix)
		fmt.Printf("  failed obligation: %s\n  at %s: %s\n  solver verdict: %s (%s)\n", k, g.Pos, g.Desc, g.Bad.Status, g.Bad.Backend)
	}
	for i, f := range known {
		if f.Property == id && f.Status == "known" {
			if knownHits[i] {
				fmt.Printf("KNOWN-FINDING: property=%s %s\n", id, f.What)
			} else {
				fmt.Printf("NOTE: known finding no longer reproduces (property=%s %s)\n", id, f.What)
			}
		}
	}
	// 5. evidence
	var trusted []string
	for t, on := range e.trusted {
		if on {
			trusted = append(trusted, t)
		}
	}
	usedAx := map[string]bool{}
	seenD := map[*Decls]bool{}
	for _, o := range all {
		d := o.D
		if d == nil || seenD[d] {
			continue
		}
		seenD[d] = true
		for i, name := range d.axiomName {
			if strings.HasPrefix(name, "axiom.") {
				for _, tr := range strings.Split(d.axiomTrig[i], "|") {
					if _, ok := d.funs[tr]; ok {
						usedAx[strings.TrimPrefix(name, "axiom.")] = true
					}
				}
			}
		}
	}
	usesLemmadef := false
	for _, t := range trusted {
		if strings.HasPrefix(t, "lemma (assumed): ") {
			usesLemmadef = true
		}
	}
	leanNames, leanStatus := leanLemmaStatus(verifDir, tier, len(usedAx) > 0 || usesLemmadef)
	for i, t := range trusted {
		if strings.HasPrefix(t, "lemma (assumed): ") {
			rest := strings.TrimPrefix(t, "lemma (assumed): ")
			if j := strings.Index(rest, ":"); j > 0 && leanNames[rest[:j]] {
				trusted[i] = "lemma " + rest[:j] + ": instantiated here as an SMT fact; proved in Lean 4 + Mathlib for finite sets in lemmas/Lemmas.lean (" + leanStatus + "); statement: " + strings.TrimSpace(rest[j+1:])
			}
		}
	}
	for a := range usedAx {
		if leanNames[a] {
			trusted = append(trusted, "lemma "+a+": an SMT axiom here; proved in Lean 4 + Mathlib for finite sets in lemmas/Lemmas.lean ("+leanStatus+"); applying it to array-represented sets assumes those sets are finite")
		} else {
			trusted = append(trusted, "axiom (lemma library, assumed): "+a)
		}
	}
	trusted = append(trusted, "VC generator gsv itself (symbolic execution of the typed AST; constructs dropped: logging, tracing, mutex calls, time)",
		"SMT solvers z3 4.8.12 / z3 5.1.0 / cvc5 1.0 (an `unsat` answer from any one discharges an obligation)",
		"sequential reasoning per function: atomicity of the functions under contract comes from the package's lock / single actor goroutine (not checked here)")
	sort.Strings(trusted)
	byBackend := map[string]map[string]interface{}{}
	for be, s := range stats.ByBackend {
		byBackend[be] = map[string]interface{}{"calls": s.Calls, "decided": s.Discharged, "seconds": round2(s.Seconds)}
	}
	sort.Strings(fnsUnder)
	cov := map[string]interface{}{
		"obligations":              nObl,
		"discharged":               discharged,
		"queries":                  len(all),
		"paths":                    paths,
		"checker_cmd":              fmt.Sprintf("/verif/bin/gsv check %s --tier %s", id, tier),
		"trusted_base":             trusted,
		"functions_under_contract": fnsUnder,
		"by_backend":               byBackend,
		"vacuity_guards":           map[string]int{"cover_queries": covers, "passed": coverOK},
		"dead_exits":               deadExits,
		"samples":                  samples,
		"not_decided":              pack.NotDecided,
		"bounded_standins":         pack.Bounded,
		"claim":                    pack.Claim,
		"contract_hash":            chash,
		"out_of_reach":             fnErrs,
		"known_findings_hit":       len(knownHits),
		"known_finding_obligations": knownObls,
		"rule":                     "one obligation = one named proof goal (precondition at a call site, postcondition conjunct, loop-invariant conjunct at entry/back-edge, frame condition, no-panic / no-overflow check) of a function under contract; it is discharged when every path instance is unsat",
	}
	if nObl == 0 {
		fmt.Printf("TOOL-ERROR property=%s zero obligations generated\n", id)
		toolErrs++
	}
	level := "proof"
	ev := map[string]interface{}{
		"property_id": id, "tier": tier, "seed": seed, "level": level, "coverage": cov,
		"assumptions": append(append([]string{}, pack.Assumes...), trusted...), "wall_s": round2(time.Since(t0).Seconds()), "violations": violations,
	}
	if discharged == 0 {
		// schema needs discharged >= 1 for a proof claim; say what happened instead
		ev["level"] = "other"
		cov["explanation"] = "no obligation was discharged on this run (tool error or everything failed); nothing is claimed"
	}
	writeEvidence(verifDir, id, ev)
	fmt.Printf("property=%s tier=%s functions=%d obligations=%d discharged=%d queries=%d violations=%d known=%d tool_errors=%d wall=%.1fs\n",
		id, tier, len(fnsUnder), nObl, discharged, len(all), violations, len(knownHits), toolErrs, time.Since(t0).Seconds())
	if violations > 0 {
		return 1
	}
	if toolErrs > 0 {
		return 2
	}
	// record candidates for the baseline when asked (never at check time by the harness)
	if os.Getenv("GSV_WRITE_BASELINE") == "1" {
		var names []string
		for _, k := range order {
			if groups[k].Insts[0].Kind != "cover" && groups[k].Passed {
				names = append(names, k)
			}
		}
		sort.Strings(names)
		base[id] = &BaseEntry{ContractHash: chash, Obligations: names}
		b, _ := json.MarshalIndent(base, "", " ")
		os.WriteFile(filepath.Join(verifDir, "baseline_obligations.json"), b, 0o644)
	}
	return 0
}

func head(s string, n int) string {
	if len(s) > n {
		return s[:n] + "…"
	}
	return s
}

func round2(f float64) float64 { return float64(int(f*100+0.5)) / 100 }

func shortFn(k string) string { return strings.TrimPrefix(k, modPath+"/") }

func matchRE(pat, s string) bool {
	if pat == "" {
		return true
	}
	r, err := regexp.Compile(pat)
	if err != nil {
		return false
	}
	return r.MatchString(s)
}

func writeEvidence(verifDir, id string, ev map[string]interface{}) {
	os.MkdirAll(filepath.Join(verifDir, "evidence"), 0o755)
	b, _ := json.MarshalIndent(ev, "", " ")
	os.WriteFile(filepath.Join(verifDir, "evidence", id+".json"), b, 0o644)
}

func writeToolErrorEvidence(verifDir, id, tier string, seed int, msg string, wall float64) {
	writeEvidence(verifDir, id, map[string]interface{}{
		"property_id": id, "tier": tier, "seed": seed, "level": "other",
		"coverage": map[string]interface{}{"explanation": "tool error, nothing verified on this run: " + msg},
		"wall_s":   round2(wall), "violations": 0,
	})
}

type ReplayResult struct {
	Path       string
	Reproduced bool
}

// writeReplay records a failed obligation: name, position, solver outputs, model values and the
// SMT query; if the pack has a replay template and the solver produced a model, the model is
// replayed against the real code.
func (e *Engine) writeReplay(dir, id string, g *oblGroup, pack *Pack) ReplayResult {
	os.MkdirAll(dir, 0o755)
	base := sanitize(shortFn(g.Fn) + "__" + g.Name)
	qf := filepath.Join(dir, base+".smt2")
	os.WriteFile(qf, []byte(g.Bad.Query), 0o644)
	rec := map[string]interface{}{
		"property": id, "function": g.Fn, "obligation": g.Name, "what": g.Desc, "at": g.Pos,
		"verdict": g.Bad.Status, "backend": g.Bad.Backend, "solver_output": head(g.Bad.Raw, 4000),
		"model": g.Bad.Model, "query_file": qf, "instances": len(g.Insts),
	}
	res := ReplayResult{Path: filepath.Join(dir, base+".json")}
	if g.Bad.Status == "sat" {
		ok, note, test := e.replayOnRealCode(dir, base, g, pack)
		rec["replay_on_real_code"] = note
		if test != "" {
			rec["replay_test_file"] = test
		}
		res.Reproduced = ok
	} else {
		note := "no model: the solvers answered " + g.Bad.Status + " (quantified goal); the obligation is reported as failed because it is discharged on the unchanged tree"
		// a scenario template without model parameters can still be replayed on the real code
		ok, rnote, test := e.replayOnRealCode(dir, base, g, pack)
		if test != "" {
			note += "; scenario replay: " + rnote
			rec["replay_test_file"] = test
			res.Reproduced = ok
		}
		rec["replay_on_real_code"] = note
	}
	rec["reproduced_on_real_code"] = res.Reproduced
	b, _ := json.MarshalIndent(rec, "", " ")
	os.WriteFile(res.Path, b, 0o644)
	return res
}

func cmdReplay(repo, verifDir, path string) int { return 0 }
func cmdSelftest(verifDir, only string) int     { return 2 }

// leanLemmaStatus: the names proved in /verif/lemmas/Lemmas.lean and, in the thorough tier, the result of
// re-checking that file with lean now.
func leanLemmaStatus(verifDir, tier string, used bool) (map[string]bool, string) {
	names := map[string]bool{}
	file := filepath.Join(verifDir, "lemmas", "Lemmas.lean")
	src, err := os.ReadFile(file)
	if err != nil {
		return names, "file missing"
	}
	for _, m := range regexp.MustCompile(`(?m)^theorem\s+([A-Za-z_0-9]+)`).FindAllStringSubmatch(string(src), -1) {
		names[m[1]] = true
	}
	if tier != "thorough" || !used {
		return names, "re-checked with `lean` by the thorough tier of this check"
	}
	t0 := time.Now()
	ctx, cancel := context.WithTimeout(context.Background(), 20*time.Minute)
	defer cancel()
	cmd := exec.CommandContext(ctx, "lean", file)
	out, err := cmd.CombinedOutput()
	if err != nil || strings.Contains(string(out), "error") {
		return map[string]bool{}, "lean FAILED: " + head(string(out), 200)
	}
	return names, fmt.Sprintf("re-checked with `lean` by this run in %.0f s: no errors", time.Since(t0).Seconds())
}
