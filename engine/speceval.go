package main

// Evaluation of specification expressions to SMT terms in a symbolic state.

import (
	"fmt"
	"go/token"
	"go/types"
	"strings"

	"golang.org/x/tools/go/packages"
)

type SpecCtx struct {
	c    *FnCtx
	pkg  *packages.Package // scope for type names
	pos  token.Pos
	env  map[string]Term
	st   *State
	old  *State
	gts  map[string]*GhostType // ghost types of bound variables (for set/map typed)
}

func (sc *SpecCtx) with(env map[string]Term) *SpecCtx {
	n := *sc
	n.env = env
	return &n
}

func copyEnv(env map[string]Term) map[string]Term {
	n := make(map[string]Term, len(env)+2)
	for k, v := range env {
		n[k] = v
	}
	return n
}

func (sc *SpecCtx) fail(f string, a ...interface{}) {
	panic(toolErr("spec: "+f, a...))
}

// lookupTypeName finds a named struct type by (possibly qualified) name in the spec's package scope.
func (sc *SpecCtx) lookupTypeName(name string) *types.Named {
	if n := sc.lookupLocalTypeName(name); n != nil {
		return n
	}
	if sc.pkg != nil && sc.pkg.Types != nil {
		if sc.pkg.Types.Scope().Lookup(name) != nil {
			return nil // a non-struct object of that name in scope
		}
	}
	if n := sc.c.e.findNamedStruct(name, nil); n != nil {
		return n
	}
	// a dependency struct declared `transparent pkg.Name` may be named by its bare name
	var hit *types.Named
	for q := range sc.c.e.d.transparent {
		i := strings.LastIndex(q, ".")
		if i < 0 || q[i+1:] != name {
			continue
		}
		for _, p := range sc.c.e.pkgs {
			if p.Types != nil && p.Types.Name() == q[:i] {
				if obj := p.Types.Scope().Lookup(name); obj != nil {
					if tn, ok := obj.(*types.TypeName); ok {
						if n, ok := tn.Type().(*types.Named); ok {
							hit = n
						}
					}
				}
			}
		}
	}
	return hit
}

func (sc *SpecCtx) lookupLocalTypeName(name string) *types.Named {
	if sc.pkg == nil || sc.pkg.Types == nil {
		return nil
	}
	if obj := sc.pkg.Types.Scope().Lookup(name); obj != nil {
		if tn, ok := obj.(*types.TypeName); ok {
			if n, ok := tn.Type().(*types.Named); ok {
				return n
			}
		}
	}
	return nil
}

func (sc *SpecCtx) eval(e SExpr) Term {
	c := sc.c
	d := c.e.d
	switch x := e.(type) {
	case *SInt:
		return Term{S: x.Val, Sort: sInt, T: types.Typ[types.UntypedInt]}
	case *SBool:
		if x.Val {
			return Term{S: "true", Sort: sBool}
		}
		return Term{S: "false", Sort: sBool}
	case *SNil:
		return Term{S: "nilV", Sort: sV, T: types.Typ[types.UntypedNil]}
	case *SStr:
		return Term{S: d.strLit(x.Val), Sort: sV, T: types.Typ[types.String]}
	case *SIdent:
		if t, ok := sc.env[x.Name]; ok {
			return t
		}
		if g := c.e.ghostVar(x.Name); g != nil {
			t := c.heapGet(sc.st, "G:"+x.Name, g.Sort)
			return t
		}
		if x.Name == "alloc" {
			return c.allocArr(sc.st)
		}
		// package-level const or var
		if sc.pkg != nil && sc.pkg.Types != nil {
			if obj := sc.pkg.Types.Scope().Lookup(x.Name); obj != nil {
				switch o := obj.(type) {
				case *types.Const:
					return c.constTerm(o.Val(), o.Type())
				case *types.Var:
					return c.heapGet(sc.st, "PV:"+o.Pkg().Path()+"."+o.Name(), d.sortOf(o.Type())).withT(o.Type())
				}
			}
		}
		sc.fail("unknown identifier %q", x.Name)
	case *SUnary:
		v := sc.eval(x.X)
		if x.Op == "!" {
			sc.want(v, sBool, "operand of !")
			return Term{S: sNot(v.S), Sort: sBool}
		}
		sc.want(v, sInt, "operand of -")
		return Term{S: "(- " + v.S + ")", Sort: sInt, T: v.T}
	case *SBinary:
		return sc.evalBinary(x)
	case *SField:
		// pkgalias.Type.field designator
		if q, ok := x.X.(*SField); ok {
			if n := sc.typeDesignator(q); n != nil {
				if fv := structField(n, x.Name); fv != nil {
					return c.fieldArr(sc.st, n, fv)
				}
				sc.fail("type %s has no field %s", n.Obj().Name(), x.Name)
			}
		}
		// Type.field designator: the heap array of that field
		if id, ok := x.X.(*SIdent); ok {
			if _, bound := sc.env[id.Name]; !bound && c.e.ghosts[id.Name] == nil {
				if n := sc.lookupTypeName(id.Name); n != nil {
					if st, ok := n.Underlying().(*types.Struct); ok {
						for i := 0; i < st.NumFields(); i++ {
							if st.Field(i).Name() == x.Name {
								return c.fieldArr(sc.st, n, st.Field(i))
							}
						}
						sc.fail("type %s has no field %s", id.Name, x.Name)
					}
				}
				// pkg.Name constant / var in an imported package
				if sc.pkg != nil {
					for _, imp := range sc.pkg.Imports {
						if imp.Types != nil && imp.Types.Name() == id.Name {
							if obj := imp.Types.Scope().Lookup(x.Name); obj != nil {
								switch o := obj.(type) {
								case *types.Const:
									return c.constTerm(o.Val(), o.Type())
								case *types.Var:
									return c.heapGet(sc.st, "PV:"+o.Pkg().Path()+"."+o.Name(), d.sortOf(o.Type())).withT(o.Type())
								}
							}
						}
					}
				}
			}
		}
		base := sc.eval(x.X)
		return sc.fieldOf(base, x.Name)
	case *SIndex:
		base := sc.eval(x.X)
		idx := sc.eval(x.I)
		return sc.indexOf(base, idx)
	case *SSlice:
		base := sc.eval(x.X)
		if base.Sort.Kind != KSlice {
			sc.fail("slicing a non-slice")
		}
		n := base.Sort.Name
		lo := "0"
		hi := fmt.Sprintf("(%s.len %s)", n, base.S)
		if x.Lo != nil {
			lo = sc.eval(x.Lo).S
		}
		if x.Hi != nil {
			hi = sc.eval(x.Hi).S
		}
		return Term{S: fmt.Sprintf("(%s (%s.arr %s) (+ (%s.off %s) %s) (- %s %s))", base.Sort.ctor(), n, base.S, n, base.S, lo, hi, lo), Sort: base.Sort, T: base.T}
	case *SQuant:
		env := copyEnv(sc.env)
		var binds []string
		var guards []string
		for _, v := range x.Vars {
			gt := c.e.parseGhostType(v.Type, sc.pkg, sc.pos)
			so := c.e.ghostSort(gt)
			name := fmt.Sprintf("%s$%d", sanitize(v.Name), nextBinder())
			binds = append(binds, fmt.Sprintf("(%s %s)", name, so.SMT()))
			t := Term{S: name, Sort: so, T: gt.goType()}
			env[v.Name] = t
			if so.Kind == KInt && gt.Kind == "go" {
				if r := intRange(gt.Go, name); r != "true" {
					guards = append(guards, r)
				}
			}
		}
		body := sc.with(env).eval(x.Body)
		sc.want(body, sBool, "quantifier body")
		q := "forall"
		b := body.S
		if x.Forall {
			if len(guards) > 0 {
				b = sImp(sAnd(guards...), b)
			}
		} else {
			q = "exists"
			if len(guards) > 0 {
				b = sAnd(append(guards, b)...)
			}
		}
		if len(x.Pats) > 0 {
			var ps []string
			for _, pat := range x.Pats {
				var ts []string
				for _, pe := range pat {
					ts = append(ts, sc.with(env).eval(pe).S)
				}
				p := ":pattern (" + strings.Join(ts, " ") + ")"
				if strings.Contains(p, "(ite ") || strings.Contains(p, "(and ") || strings.Contains(p, "(or ") || strings.Contains(p, "(= ") {
					continue // solvers reject ite / connectives inside patterns
				}
				ps = append(ps, p)
			}
			if len(ps) > 0 {
				b = "(! " + b + " " + strings.Join(ps, " ") + ")"
			}
		}
		return Term{S: fmt.Sprintf("(%s (%s) %s)", q, strings.Join(binds, " "), b), Sort: sBool}
	case *SLet:
		v := sc.eval(x.Val)
		env := copyEnv(sc.env)
		env[x.Name] = v
		return sc.with(env).eval(x.Body)
	case *SCall:
		return sc.evalCall(x)
	}
	sc.fail("cannot evaluate %s", specString(e))
	return Term{}
}

// Conjunct: one top-level conjunct of a specification clause, after expanding predicates.
type Conjunct struct {
	Term Term
	Path string // e.g. "invS.3.pendOK.1"
	Src  string
}

// evalConjuncts splits a clause into its top-level conjuncts (through &&, pred calls, let and
// the right-hand side of ==>) so that each becomes a separately named obligation.
func (sc *SpecCtx) evalConjuncts(e SExpr, path string) []Conjunct {
	switch x := e.(type) {
	case *SBinary:
		if x.Op == "&&" {
			var flat []SExpr
			var fl func(y SExpr)
			fl = func(y SExpr) {
				if b, ok := y.(*SBinary); ok && b.Op == "&&" {
					fl(b.L)
					fl(b.R)
				} else {
					flat = append(flat, y)
				}
			}
			fl(x)
			var out []Conjunct
			for i, y := range flat {
				out = append(out, sc.evalConjuncts(y, fmt.Sprintf("%s.%d", path, i+1))...)
			}
			return out
		}
		if x.Op == "==>" {
			l := sc.eval(x.L)
			sc.want(l, sBool, "antecedent")
			rs := sc.evalConjuncts(x.R, path)
			for i := range rs {
				rs[i].Term = Term{S: sImp(l.S, rs[i].Term.S), Sort: sBool}
				rs[i].Src = specString(x.L) + " ==> " + rs[i].Src
			}
			return rs
		}
	case *SQuant:
		// forall x :: (A && B)  ==  (forall x :: A) && (forall x :: B): one obligation per conjunct
		if x.Forall && len(x.Pats) == 0 && sc.c.fc != nil && sc.c.fc.SplitForall {
			c := sc.c
			env := copyEnv(sc.env)
			var binds, guards []string
			for _, v := range x.Vars {
				gt := c.e.parseGhostType(v.Type, sc.pkg, sc.pos)
				so := c.e.ghostSort(gt)
				name := fmt.Sprintf("%s$%d", sanitize(v.Name), nextBinder())
				binds = append(binds, fmt.Sprintf("(%s %s)", name, so.SMT()))
				env[v.Name] = Term{S: name, Sort: so, T: gt.goType()}
				if so.Kind == KInt && gt.Kind == "go" {
					if r := intRange(gt.Go, name); r != "true" {
						guards = append(guards, r)
					}
				}
			}
			rs := sc.with(env).evalConjuncts(x.Body, path)
			if len(rs) > 1 {
				var vs []string
				for _, v := range x.Vars {
					vs = append(vs, v.Name+" "+v.Type)
				}
				for i := range rs {
					b := rs[i].Term.S
					if len(guards) > 0 {
						b = sImp(sAnd(guards...), b)
					}
					rs[i].Term = Term{S: fmt.Sprintf("(forall (%s) %s)", strings.Join(binds, " "), b), Sort: sBool}
					rs[i].Src = "forall " + strings.Join(vs, ", ") + " :: " + rs[i].Src
				}
				return rs
			}
		}
	case *SLet:
		v := sc.eval(x.Val)
		env := copyEnv(sc.env)
		env[x.Name] = v
		return sc.with(env).evalConjuncts(x.Body, path)
	case *SCall:
		if pd, ok := sc.c.e.preds[x.Fun]; ok && len(pd.Params) == len(x.Args) {
			// evaluate through the ordinary path to get argument typing, then recurse into the body
			env := map[string]Term{}
			ppk := sc.c.e.predPkg[x.Fun]
			for i, p := range pd.Params {
				a := sc.eval(x.Args[i])
				if p.Type != "" {
					gt := sc.c.e.parseGhostType(p.Type, ppk, token.NoPos)
					if gt.Kind == "go" && sameSort(sc.c.e.ghostSort(gt), a.Sort) {
						a.T = gt.Go
					}
				}
				env[p.Name] = a
			}
			n := *sc
			n.env = env
			if ppk != nil {
				n.pkg = ppk
				n.pos = token.NoPos
			}
			return n.evalConjuncts(pd.Body, path+"."+x.Fun)
		}
	}
	t := sc.eval(e)
	sc.want(t, sBool, "clause")
	return []Conjunct{{Term: t, Path: path, Src: specString(e)}}
}

var binderCounter int

func nextBinder() int { binderCounter++; return binderCounter }

func (t Term) withT(ty types.Type) Term { t.T = ty; return t }

func (sc *SpecCtx) want(t Term, so *Sort, what string) {
	if !sameSort(t.Sort, so) {
		sc.fail("%s has sort %s, want %s (term %s)", what, t.Sort.SMT(), so.SMT(), t.S)
	}
}

func derefNamedStruct(t types.Type) (*types.Named, *types.Struct, bool) {
	if t == nil {
		return nil, nil, false
	}
	t = types.Unalias(t)
	isPtr := false
	if p, ok := t.Underlying().(*types.Pointer); ok {
		t = types.Unalias(p.Elem())
		isPtr = true
	}
	n, ok := t.(*types.Named)
	if !ok {
		return nil, nil, false
	}
	st, ok := n.Underlying().(*types.Struct)
	if !ok {
		return nil, nil, false
	}
	return n, st, isPtr
}

func (sc *SpecCtx) fieldOf(base Term, name string) Term {
	c := sc.c
	if base.Sort.Kind == KStruct {
		i := base.Sort.fieldIndex(name)
		if i < 0 {
			sc.fail("no field %s in %s", name, base.Sort.Name)
		}
		f := base.Sort.Fields[i]
		return Term{S: sApp(base.Sort.sel(name), base.S), Sort: f.Sort, T: f.Type}
	}
	n, st, isPtr := derefNamedStruct(base.T)
	if n != nil && !isPtr && base.Sort.Kind == KV {
		// field of an opaque dependency struct VALUE (cast(link, cidlink.Link).Cid): the same uninterpreted function of
		// the value that the executor uses for x.f (exec_expr.go selectPath)
		for i := 0; i < st.NumFields(); i++ {
			if f := st.Field(i); f.Name() == name {
				fso := c.e.d.sortOf(f.Type())
				fn := "field." + typeShortName(n) + "." + f.Name()
				c.e.d.declFun(fn, "V", fso.SMT())
				return Term{S: sApp(fn, base.S), Sort: fso, T: f.Type()}
			}
		}
	}
	if n == nil || !isPtr {
		sc.fail("field %s of non-struct term %s (type %v)", name, base.S, base.T)
	}
	// search fields including promoted through embedded structs (one level)
	for i := 0; i < st.NumFields(); i++ {
		f := st.Field(i)
		if f.Name() == name {
			if c.e.isInlineObj(n, f) {
				return c.inlineRef(sc.st, n, f, base)
			}
			arr := c.fieldArr(sc.st, n, f)
			return Term{S: sSel(arr.S, base.S), Sort: arr.Sort.Elem, T: f.Type()}
		}
	}
	for i := 0; i < st.NumFields(); i++ {
		f := st.Field(i)
		if f.Embedded() {
			arr := c.fieldArr(sc.st, n, f)
			inner := Term{S: sSel(arr.S, base.S), Sort: arr.Sort.Elem, T: f.Type()}
			if _, _, ok := derefNamedStruct(f.Type()); ok || inner.Sort.Kind == KStruct {
				func() {
					defer func() { recover() }()
				}()
				if in2, _, ok2 := derefNamedStruct(f.Type()); in2 != nil {
					_ = ok2
					st2 := in2.Underlying().(*types.Struct)
					for j := 0; j < st2.NumFields(); j++ {
						if st2.Field(j).Name() == name {
							return sc.fieldOf(inner, name)
						}
					}
				}
			}
		}
	}
	sc.fail("type %s has no field %s", n.Obj().Name(), name)
	return Term{}
}

func (sc *SpecCtx) indexOf(base, idx Term) Term {
	c := sc.c
	switch base.Sort.Kind {
	case KSlice:
		sc.want(idx, sInt, "slice index")
		return Term{S: sliceAt(base, idx.S), Sort: base.Sort.Elem, T: sliceElemGo(base)}
	case KArray:
		if !sameSort(idx.Sort, base.Sort.Key) {
			sc.fail("index sort %s, want %s, in %s[%s]", idx.Sort.SMT(), base.Sort.Key.SMT(), base.S, idx.S)
		}
		var et types.Type
		if base.T != nil {
			// ghost map/set with Go element type carried in T
			et = base.T
		}
		return Term{S: sSel(base.S, idx.S), Sort: base.Sort.Elem, T: et}
	case KV:
		if base.T != nil {
			if m, ok := base.T.Underlying().(*types.Map); ok {
				_, val, _, _ := c.mapArrs(sc.st, m)
				ks := c.e.d.sortOf(m.Key())
				if !sameSort(idx.Sort, ks) {
					sc.fail("map key sort mismatch in %s[%s]", base.S, idx.S)
				}
				return Term{S: sSel(sSel(val.S, base.S), idx.S), Sort: val.Sort.Elem.Elem, T: m.Elem()}
			}
		}
	}
	sc.fail("cannot index %s (sort %s, type %v)", base.S, base.Sort.SMT(), base.T)
	return Term{}
}

func (sc *SpecCtx) evalBinary(x *SBinary) Term {
	c := sc.c
	if x.Op == "in" {
		k := sc.eval(x.L)
		m := sc.eval(x.R)
		if m.Sort.Kind == KArray && sameSort(m.Sort.Elem, sBool) {
			return Term{S: sSel(m.S, k.S), Sort: sBool}
		}
		if m.T != nil {
			if mt, ok := m.T.Underlying().(*types.Map); ok {
				dom, _, _, _ := c.mapArrs(sc.st, mt)
				return Term{S: sSel(sSel(dom.S, m.S), k.S), Sort: sBool}
			}
		}
		sc.fail("'in' needs a set or map on the right: %s", specString(x))
	}
	l := sc.eval(x.L)
	r := sc.eval(x.R)
	boolop := func(op string) Term {
		sc.want(l, sBool, "left operand of "+x.Op+" in "+specString(x))
		sc.want(r, sBool, "right operand of "+x.Op+" in "+specString(x))
		return Term{S: "(" + op + " " + l.S + " " + r.S + ")", Sort: sBool}
	}
	switch x.Op {
	case "&&":
		return boolop("and")
	case "||":
		return boolop("or")
	case "==>":
		return boolop("=>")
	case "<==>":
		return boolop("=")
	case "==", "!=":
		l, r = sc.unify(l, r)
		s := sEq(l.S, r.S)
		if x.Op == "!=" {
			s = sNot(s)
		}
		return Term{S: s, Sort: sBool}
	case "<", "<=", ">", ">=":
		sc.want(l, sInt, "operand of "+x.Op)
		sc.want(r, sInt, "operand of "+x.Op)
		return Term{S: "(" + x.Op + " " + l.S + " " + r.S + ")", Sort: sBool}
	case "+", "-", "*":
		sc.want(l, sInt, "operand of "+x.Op)
		sc.want(r, sInt, "operand of "+x.Op)
		return Term{S: "(" + x.Op + " " + l.S + " " + r.S + ")", Sort: sInt, T: l.T}
	case "/":
		return Term{S: "(div " + l.S + " " + r.S + ")", Sort: sInt, T: l.T}
	case "%":
		return Term{S: "(mod " + l.S + " " + r.S + ")", Sort: sInt, T: l.T}
	}
	sc.fail("bad operator %s", x.Op)
	return Term{}
}

// unify handles nil against slices (nil slice == len 0 is NOT assumed; nil compares on a slice
// are rejected) and checks sorts.
func (sc *SpecCtx) unify(l, r Term) (Term, Term) {
	if sameSort(l.Sort, r.Sort) {
		return l, r
	}
	sc.fail("comparison of different sorts: %s : %s  vs  %s : %s", l.S, l.Sort.SMT(), r.S, r.Sort.SMT())
	return l, r
}

func (sc *SpecCtx) evalCall(x *SCall) Term {
	c := sc.c
	d := c.e.d
	argn := func(n int) {
		if len(x.Args) != n {
			sc.fail("%s takes %d arguments", x.Fun, n)
		}
	}
	switch x.Fun {
	case "old":
		argn(1)
		if sc.old == nil {
			sc.fail("old() not available here")
		}
		n := *sc
		n.st = sc.old
		// captured variables of a closure are bound to their CURRENT values in a contract's environment (a closure may
		// assign them); inside old() they mean their values on entry
		if sc.c != nil && len(sc.c.captured) > 0 {
			env := copyEnv(sc.env)
			for v := range sc.c.captured {
				if t, ok := sc.old.vars[v]; ok {
					if _, bound := env[v.Name()]; bound {
						env[v.Name()] = t
					}
				}
			}
			n.env = env
		}
		return n.eval(x.Args[0])
	case "len":
		argn(1)
		v := sc.eval(x.Args[0])
		switch {
		case v.Sort.Kind == KSlice:
			if sc.st != nil && !strings.Contains(v.S, "$") {
				// a slice value never has a negative length or offset (type fact; ground terms only - bound
				// variables of a quantifier are named x$n)
				sc.st.assume(fmt.Sprintf("(and (<= 0 (%s.len %s)) (<= 0 (%s.off %s)))", v.Sort.Name, v.S, v.Sort.Name, v.S))
			}
			return Term{S: fmt.Sprintf("(%s.len %s)", v.Sort.Name, v.S), Sort: sInt, T: types.Typ[types.Int]}
		case v.T != nil:
			if m, ok := v.T.Underlying().(*types.Map); ok {
				dom, _, _, _ := c.mapArrs(sc.st, m)
				return Term{S: c.cardOf(dom.Sort.Elem, sSel(dom.S, v.S)), Sort: sInt, T: types.Typ[types.Int]}
			}
			if b, ok := v.T.Underlying().(*types.Basic); ok && b.Info()&types.IsString != 0 {
				d.declFun("strlen", "V", "Int")
				return Term{S: sApp("strlen", v.S), Sort: sInt, T: types.Typ[types.Int]}
			}
		}
		if v.Sort.Kind == KArray && sameSort(v.Sort.Elem, sBool) {
			return Term{S: c.cardOf(v.Sort, v.S), Sort: sInt, T: types.Typ[types.Int]}
		}
		sc.fail("len of %s", specString(x.Args[0]))
	case "card":
		argn(1)
		v := sc.eval(x.Args[0])
		return Term{S: c.cardOf(v.Sort, v.S), Sort: sInt, T: types.Typ[types.Int]}
	case "ite":
		argn(3)
		cnd := sc.eval(x.Args[0])
		a := sc.eval(x.Args[1])
		b := sc.eval(x.Args[2])
		sc.want(cnd, sBool, "ite condition")
		a, b = sc.unify(a, b)
		return Term{S: sIte(cnd.S, a.S, b.S), Sort: a.Sort, T: a.T}
	case "min", "max":
		argn(2)
		a := sc.eval(x.Args[0])
		b := sc.eval(x.Args[1])
		op := "<="
		if x.Fun == "max" {
			op = ">="
		}
		return Term{S: sIte("("+op+" "+a.S+" "+b.S+")", a.S, b.S), Sort: sInt, T: a.T}
	case "add", "del":
		argn(2)
		s := sc.eval(x.Args[0])
		v := sc.eval(x.Args[1])
		if s.Sort.Kind != KArray || !sameSort(s.Sort.Elem, sBool) || !sameSort(s.Sort.Key, v.Sort) {
			sc.fail("%s(set, elem): bad sorts in %s", x.Fun, specString(x))
		}
		b := "true"
		if x.Fun == "del" {
			b = "false"
		}
		return Term{S: sSto(s.S, v.S, b), Sort: s.Sort, T: s.T}
	case "upd":
		argn(3)
		m := sc.eval(x.Args[0])
		k := sc.eval(x.Args[1])
		v := sc.eval(x.Args[2])
		if m.Sort.Kind != KArray || !sameSort(m.Sort.Key, k.Sort) || !sameSort(m.Sort.Elem, v.Sort) {
			sc.fail("upd(map, k, v): bad sorts in %s", specString(x))
		}
		return Term{S: sSto(m.S, k.S, v.S), Sort: m.Sort, T: m.T}
	case "emptyset":
		argn(1)
		gt := c.e.parseGhostType(specTypeString(x.Args[0]), sc.pkg, sc.pos)
		so := arraySort(c.e.ghostSort(gt), sBool)
		return Term{S: d.zero(so), Sort: so}
	case "domain":
		// domain(m): the key set of a Go map
		argn(1)
		m := sc.eval(x.Args[0])
		if m.T != nil {
			if mt, ok := m.T.Underlying().(*types.Map); ok {
				dom, _, _, _ := c.mapArrs(sc.st, mt)
				return Term{S: sSel(dom.S, m.S), Sort: dom.Sort.Elem}
			}
		}
		sc.fail("domain of non-map")
	case "values":
		// values(m): the value array of a Go map (total; meaningful on its domain)
		argn(1)
		m := sc.eval(x.Args[0])
		if m.T != nil {
			if mt, ok := m.T.Underlying().(*types.Map); ok {
				_, val, _, _ := c.mapArrs(sc.st, mt)
				return Term{S: sSel(val.S, m.S), Sort: val.Sort.Elem, T: mt.Elem()}
			}
		}
		sc.fail("values of non-map")
	case "append":
		argn(2)
		s := sc.eval(x.Args[0])
		v := sc.eval(x.Args[1])
		if s.Sort.Kind != KSlice || !sameSort(s.Sort.Elem, v.Sort) {
			sc.fail("append(seq, elem): bad sorts")
		}
		return Term{S: sliceAppend(s, v.S), Sort: s.Sort, T: s.T}
	case "slo", "shi":
		// absolute bounds of a slice inside its backing array: invariants phrased over
		// absolute positions survive reslicing (s[1:]) and append without index arithmetic
		argn(1)
		s := sc.eval(x.Args[0])
		if s.Sort.Kind != KSlice {
			sc.fail("%s of non-slice", x.Fun)
		}
		n := s.Sort.Name
		if x.Fun == "slo" {
			return Term{S: fmt.Sprintf("(%s.off %s)", n, s.S), Sort: sInt}
		}
		return Term{S: fmt.Sprintf("(+ (%s.off %s) (%s.len %s))", n, s.S, n, s.S), Sort: sInt}
	case "sat":
		argn(2)
		s := sc.eval(x.Args[0])
		j := sc.eval(x.Args[1])
		if s.Sort.Kind != KSlice {
			sc.fail("sat of non-slice")
		}
		sc.want(j, sInt, "absolute index")
		return Term{S: fmt.Sprintf("(select (%s.arr %s) %s)", s.Sort.Name, s.S, j.S), Sort: s.Sort.Elem, T: sliceElemGo(s)}
	case "emptyseq":
		argn(1)
		gt := c.e.parseGhostType("seq["+specTypeString(x.Args[0])+"]", sc.pkg, sc.pos)
		so := c.e.ghostSort(gt)
		return Term{S: d.zero(so), Sort: so}
	case "fresh":
		// allocated now, not allocated in the old state (the argument is evaluated in the current state)
		argn(1)
		if sc.old == nil {
			sc.fail("fresh() not available here")
		}
		v := sc.eval(x.Args[0])
		return Term{S: sAnd(sSel(c.allocArr(sc.st).S, v.S), sNot(sSel(c.allocArr(sc.old).S, v.S))), Sort: sBool}
	case "isalloc":
		argn(1)
		v := sc.eval(x.Args[0])
		return Term{S: sSel(c.allocArr(sc.st).S, v.S), Sort: sBool}
	case "dyntype":
		argn(1)
		v := sc.eval(x.Args[0])
		d.declFun("dyntype", "V", "Int")
		return Term{S: sApp("dyntype", v.S), Sort: sInt}
	case "implements":
		// implements(x, "IfaceType"): the dynamic type of x implements the interface (x non-nil)
		argn(2)
		v := sc.eval(x.Args[0])
		t := c.e.resolveGoType(specTypeString(x.Args[1]), sc.pkg, sc.pos)
		return Term{S: sAnd(c.implementsTerm(v, t), sNot(sEq(v.S, "nilV"))), Sort: sBool}
	case "typetag":
		argn(1)
		t := c.e.resolveGoType(specTypeString(x.Args[0]), sc.pkg, sc.pos)
		return Term{S: fmt.Sprint(d.typeTag(t)), Sort: sInt}
	case "deref":
		// deref(p): the value a pointer to a non-struct (or opaque) type points at
		argn(1)
		v := sc.eval(x.Args[0])
		if v.T == nil {
			sc.fail("deref of a term without Go type")
		}
		pt, ok := v.T.Underlying().(*types.Pointer)
		if !ok {
			sc.fail("deref of non-pointer %v", v.T)
		}
		arr := c.heapGet(sc.st, "P:"+typeShortName(pt.Elem()), arraySort(sV, d.sortOf(pt.Elem())))
		return Term{S: sSel(arr.S, v.S), Sort: arr.Sort.Elem, T: pt.Elem()}
	case "unbox":
		// unbox(x, "T"): the value of struct (or other non-reference) type T held by the interface value x
		argn(2)
		v := sc.eval(x.Args[0])
		t := c.e.resolveGoType(specTypeString(x.Args[1]), sc.pkg, sc.pos)
		if v.Sort.Kind != KV {
			sc.fail("unbox: the first argument must be an interface value")
		}
		return c.unbox(v, t)
	case "cast":
		// cast(x, T): the interface value x seen as the V-sorted (pointer or opaque struct) type T it is asserted to hold
		argn(2)
		v := sc.eval(x.Args[0])
		t := c.e.resolveGoType(specTypeString(x.Args[1]), sc.pkg, sc.pos)
		if v.Sort.Kind != KV || d.sortOf(t).Kind != KV {
			sc.fail("cast: only between reference-sorted types")
		}
		v.T = t
		return v
	case "zero":
		argn(1)
		gt := c.e.parseGhostType(specTypeString(x.Args[0]), sc.pkg, sc.pos)
		so := c.e.ghostSort(gt)
		return Term{S: d.zero(so), Sort: so, T: gt.goType()}
	}
	if pd, ok := c.e.preds[x.Fun]; ok {
		if len(pd.Params) != len(x.Args) {
			sc.fail("pred %s takes %d arguments", x.Fun, len(pd.Params))
		}
		env := map[string]Term{}
		ppk := c.e.predPkg[x.Fun]
		for i, p := range pd.Params {
			a := sc.eval(x.Args[i])
			if p.Type != "" {
				// the declared parameter type re-types the argument (implicit cast of interface
				// values / ghost refs to the pointer type the predicate talks about)
				gt := c.e.parseGhostType(p.Type, ppk, token.NoPos)
				so := c.e.ghostSort(gt)
				if !sameSort(so, a.Sort) {
					sc.fail("pred %s argument %d has sort %s, want %s", x.Fun, i+1, a.Sort.SMT(), so.SMT())
				}
				if gt.Kind == "go" {
					a.T = gt.Go
				}
			}
			env[p.Name] = a
		}
		n := *sc
		n.env = env
		if ppk != nil {
			n.pkg = ppk
			n.pos = token.NoPos
		}
		return n.eval(pd.Body)
	}
	if f, ok := c.e.fns[x.Fun]; ok {
		if len(f.Params) != len(x.Args) {
			sc.fail("fn %s takes %d arguments", x.Fun, len(f.Params))
		}
		pk := c.e.fnPkg[x.Fun]
		var as, sorts []string
		for i, p := range f.Params {
			so := c.e.ghostSort(c.e.parseGhostType(p.Type, pk, token.NoPos))
			a := sc.eval(x.Args[i])
			if !sameSort(a.Sort, so) {
				sc.fail("fn %s argument %d has sort %s, want %s", x.Fun, i+1, a.Sort.SMT(), so.SMT())
			}
			as = append(as, a.S)
			sorts = append(sorts, so.SMT())
		}
		rgt := c.e.parseGhostType(f.Ret, pk, token.NoPos)
		rs := c.e.ghostSort(rgt)
		d.declFun("fn."+x.Fun, strings.Join(sorts, " "), rs.SMT())
		return Term{S: sApp("fn."+x.Fun, as...), Sort: rs, T: rgt.goType()}
	}
	sc.fail("unknown function %s", x.Fun)
	return Term{}
}

func specTypeString(e SExpr) string {
	// types passed as expressions: identifiers, pkg.Name, *T are re-rendered
	switch x := e.(type) {
	case *SIdent:
		return x.Name
	case *SField:
		return specTypeString(x.X) + "." + x.Name
	case *SUnary:
		return x.Op + specTypeString(x.X)
	case *SStr:
		return x.Val
	}
	return specString(e)
}

func sliceAppend(s Term, v string) string {
	n := s.Sort.Name
	return fmt.Sprintf("(%s (store (%s.arr %s) (+ (%s.off %s) (%s.len %s)) %s) (%s.off %s) (+ (%s.len %s) 1))",
		s.Sort.ctor(), n, s.S, n, s.S, n, s.S, v, n, s.S, n, s.S)
}

// cardOf: cardinality of a set term (uninterpreted with axioms added on first use).
func (c *FnCtx) cardOf(setSort *Sort, s string) string {
	d := c.e.d
	fn := "card." + sanitize(setSort.Key.SMT())
	if _, ok := d.funs[fn]; !ok {
		d.declFun(fn, setSort.SMT(), "Int")
		k := setSort.Key.SMT()
		ss := setSort.SMT()
		d.addAxiom(fn+".nonneg", fmt.Sprintf("(forall ((s %s)) (! (>= (%s s) 0) :pattern ((%s s))))", ss, fn, fn))
		d.addAxiom(fn+".empty", fmt.Sprintf("(= (%s ((as const %s) false)) 0)", fn, ss))
		d.addAxiom(fn+".add", fmt.Sprintf("(forall ((s %s) (k %s)) (! (= (%s (store s k true)) (+ (%s s) (ite (select s k) 0 1))) :pattern ((%s (store s k true)))))", ss, k, fn, fn, fn))
		d.addAxiom(fn+".del", fmt.Sprintf("(forall ((s %s) (k %s)) (! (= (%s (store s k false)) (- (%s s) (ite (select s k) 1 0))) :pattern ((%s (store s k false)))))", ss, k, fn, fn, fn))
		d.addAxiom(fn+".mem", fmt.Sprintf("(forall ((s %s) (k %s)) (! (=> (select s k) (> (%s s) 0)) :pattern ((select s k) (%s s))))", ss, k, fn, fn))
		// positive => some member, with a witness function instead of a nested existential (much
		// friendlier to e-matching: no skolemisation inside instances)
		d.declFun(fn+".wit", ss, k)
		d.addAxiom(fn+".pos", fmt.Sprintf("(forall ((s %s)) (! (=> (> (%s s) 0) (select s (%s.wit s))) :pattern ((%s s))))", ss, fn, fn, fn))
		c.e.trusted["axioms of set cardinality ("+fn+"): nonneg, empty, add, del, member=>positive, positive=>member"] = true
	}
	return sApp(fn, s)
}
