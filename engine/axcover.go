package main

import (
	"fmt"
	"strings"
)

// Edge instances for the lemma-library consistency guard (cover:axioms, check.go).
//
// An inconsistency of the library typically sits at a value the author did not think of - the SMT sort of a Go slice
// is a record (array, offset, length) and also contains records with a negative length - and a solver asked only
// "are these quantified axioms satisfiable" seldom finds that instance by itself.  So every quantified library axiom
// is additionally instantiated, textually, at edge constants of its binder sorts (slices of length -1, 0 and 2;
// integers -1, 0, 1; one unconstrained constant of any other sort).  The ground instances give E-matching the terms it
// needs to fire the other axioms.

type sx struct {
	atom string
	kids []*sx
}

func parseSx(s string) *sx {
	var toks []string
	cur := strings.Builder{}
	flush := func() {
		if cur.Len() > 0 {
			toks = append(toks, cur.String())
			cur.Reset()
		}
	}
	for i := 0; i < len(s); i++ {
		c := s[i]
		switch {
		case c == '(' || c == ')':
			flush()
			toks = append(toks, string(c))
		case c == ' ' || c == '\n' || c == '\t':
			flush()
		case c == '|':
			j := strings.IndexByte(s[i+1:], '|')
			if j < 0 {
				return nil
			}
			cur.WriteString(s[i : i+j+2])
			i += j + 1
		default:
			cur.WriteByte(c)
		}
	}
	flush()
	pos := 0
	var rec func() *sx
	rec = func() *sx {
		if pos >= len(toks) {
			return nil
		}
		t := toks[pos]
		pos++
		if t == "(" {
			n := &sx{}
			for pos < len(toks) && toks[pos] != ")" {
				k := rec()
				if k == nil {
					return nil
				}
				n.kids = append(n.kids, k)
			}
			pos++
			return n
		}
		if t == ")" {
			return nil
		}
		return &sx{atom: t}
	}
	r := rec()
	if pos != len(toks) {
		return nil
	}
	return r
}

func (n *sx) str(sub map[string]string) string {
	if n.kids == nil && n.atom != "" {
		if v, ok := sub[n.atom]; ok {
			return v
		}
		return n.atom
	}
	// binders of an inner quantifier shadow the substitution
	if len(n.kids) == 3 && (n.kids[0].atom == "forall" || n.kids[0].atom == "exists") {
		inner := map[string]string{}
		for k, v := range sub {
			inner[k] = v
		}
		for _, b := range n.kids[1].kids {
			if len(b.kids) == 2 {
				delete(inner, b.kids[0].atom)
			}
		}
		return "(" + n.kids[0].atom + " " + n.kids[1].str(nil) + " " + n.kids[2].str(inner) + ")"
	}
	parts := make([]string, len(n.kids))
	for i, k := range n.kids {
		parts[i] = k.str(sub)
	}
	return "(" + strings.Join(parts, " ") + ")"
}

// edgeInstances returns the declarations / constraints of the edge constants and the ground instances of the axioms.
func edgeInstances(axioms []string, d *Decls) []string {
	var out []string
	consts := map[string][]string{} // sort -> edge constants
	edge := func(sort string) []string {
		if c, ok := consts[sort]; ok {
			return c
		}
		var cs []string
		base := "edge$" + strings.NewReplacer("(", "_", ")", "_", " ", "_").Replace(sort)
		mk := func(i int, constraint string) {
			name := fmt.Sprintf("|%s$%d|", base, i)
			out = append(out, fmt.Sprintf("(declare-const %s %s)", name, sort))
			if constraint != "" {
				out = append(out, strings.ReplaceAll(constraint, "$c", name))
			}
			cs = append(cs, name)
		}
		if dt, ok := d.dtypes[sort]; ok && dt.Kind == KSlice {
			mk(0, "(assert (= ("+sort+".len $c) (- 1)))")
			mk(1, "(assert (= ("+sort+".len $c) 0))")
			mk(2, "(assert (and (= ("+sort+".len $c) 2) (= ("+sort+".off $c) 0)))")
		} else if sort == "Int" {
			cs = []string{"(- 1)", "0", "1"}
		} else {
			mk(0, "")
		}
		consts[sort] = cs
		return cs
	}
	for _, ax := range axioms {
		t := parseSx(ax)
		if t == nil || len(t.kids) != 3 || t.kids[0].atom != "forall" {
			continue
		}
		body := t.kids[2]
		if len(body.kids) >= 2 && body.kids[0].atom == "!" {
			body = body.kids[1]
		}
		type bnd struct{ name, sort string }
		var bs []bnd
		for _, b := range t.kids[1].kids {
			if len(b.kids) == 2 {
				bs = append(bs, bnd{b.kids[0].atom, b.kids[1].str(nil)})
			}
		}
		subs := []map[string]string{{}}
		for _, b := range bs {
			var next []map[string]string
			for _, s := range subs {
				for _, c := range edge(b.sort) {
					m := map[string]string{}
					for k, v := range s {
						m[k] = v
					}
					m[b.name] = c
					next = append(next, m)
				}
			}
			subs = next
			if len(subs) > 81 {
				subs = subs[:81]
			}
		}
		for _, s := range subs {
			out = append(out, "(assert "+body.str(s)+")")
		}
	}
	return out
}
