package main

import (
	"fmt"
	"go/ast"
	"go/token"
	"go/types"
	"strings"
)

type deferred struct {
	call *ast.CallExpr
	args []Term // evaluated at defer time (nil for closures)
}

type State struct {
	vars   map[types.Object]Term
	heap   map[string]Term
	path   []string
	defers []deferred
	dead   bool
}

func newState() *State {
	return &State{vars: map[types.Object]Term{}, heap: map[string]Term{}}
}

func (s *State) clone() *State {
	n := &State{vars: make(map[types.Object]Term, len(s.vars)), heap: make(map[string]Term, len(s.heap))}
	for k, v := range s.vars {
		n.vars[k] = v
	}
	for k, v := range s.heap {
		n.heap[k] = v
	}
	n.path = append([]string(nil), s.path...)
	n.defers = append([]deferred(nil), s.defers...)
	return n
}

func (s *State) assume(f string) {
	if f == "true" {
		return
	}
	s.path = append(s.path, f)
}

type Obligation struct {
	Name    string
	Fn      string
	Kind    string
	Desc    string
	Pos     string
	Assumps []string
	Goal    string
	// vacuity / reach checks expect "sat" instead of "unsat"
	ExpectSat bool
	PathOnly  []string // cover:exit: the assumptions without lemma instances (second query, without library axioms)
	NoAxioms  bool
	RawPre    []string // commands written verbatim after the prelude (edge constants and instances of cover:axioms)
	// terms whose model values are wanted on failure: label -> smt term
	Watch map[string]string
	// results
	Hubs    []string // symbolic constants of the function's inputs (do not propagate relevance when slicing)
	Status  string // "unsat","sat","unknown","timeout","error"
	Backend string
	Seconds float64
	Model   map[string]string
	Raw     string
	Query   string
	D       *Decls // the declaration registry of the function this obligation belongs to
}

// passed: a proof obligation passes iff some back end answered unsat; a vacuity guard
// (ExpectSat) passes unless the assumptions were refuted.
func (o *Obligation) passed() bool {
	if o.ExpectSat {
		// "dead": refuted by the program and its contracts alone, without any lemma-library axiom (see smt.go)
		return o.Status != "unsat" && o.Status != "error" && o.Status != ""
	}
	return o.Status == "unsat"
}

type okind int

const (
	oNext okind = iota
	oBreak
	oContinue
	oReturn
)

type Outcome struct {
	st    *State
	kind  okind
	label string
	res   []Term
	ret   *ast.ReturnStmt // the return statement that ended the path (nil: fell off the end)
}

type FnCtx struct {
	e        *Engine
	fi       *FuncInfo
	fc       *FuncContract
	info     *types.Info
	entry    *State
	env      map[string]Term
	obls     *[]*Obligation
	loopOrd  map[ast.Node]int
	curCallExprs []ast.Expr // argument expressions of the call being evaluated (for `invokes`)
	captured map[*types.Var]bool // free variables of a closure under contract: postconditions see their final values
	overflow bool
	safety   bool
	names    map[string]int
	posName  map[string]string
	watch    map[string]string
	prefix   string
	paths    int
	inlineDepth int
	resNames []string
	labels   map[ast.Stmt]string
	loopIdxVar map[ast.Node]*types.Var
	retOrd           map[*ast.ReturnStmt]int
	loopGhostVars    map[string]*types.Var
	escaping         map[types.Object]bool
	curCallArgs      []string
	lenientOuter     bool
	matchedCallSites map[int]bool
}

const maxPaths = 4000

func (c *FnCtx) pos(p token.Pos) string {
	ps := c.e.fset.Position(p)
	f := ps.Filename
	if i := strings.Index(f, "/repo/"); i >= 0 {
		f = f[i+6:]
	}
	return fmt.Sprintf("%s:%d", f, ps.Line)
}

// obligationName returns a stable name for an obligation at a source position: kind/detail#ordinal,
// ordinal counted per (kind, detail) in order of first encounter.
func (c *FnCtx) obligationName(kind, detail string, p token.Pos) string {
	k := fmt.Sprintf("%s|%s|%d", kind, detail, p)
	if n, ok := c.posName[k]; ok {
		return n
	}
	base := kind
	if detail != "" {
		base += ":" + detail
	}
	c.names[base]++
	n := fmt.Sprintf("%s%s#%d", c.prefix, base, c.names[base])
	c.posName[k] = n
	return n
}

func (c *FnCtx) oblige(st *State, kind, detail string, p token.Pos, goal string, desc string) {
	if goal == "true" || st.dead {
		return
	}
	name := c.obligationName(kind, detail, p)
	o := &Obligation{Name: name, Fn: c.fi.Key, Kind: kind, Desc: desc, Pos: c.pos(p), Goal: goal, D: c.e.d}
	o.Assumps = append([]string(nil), st.path...)
	o.Assumps = append(o.Assumps, c.useHints(st)...)
	o.Watch = map[string]string{}
	for k, v := range c.watch {
		o.Watch[k] = v
	}
	for _, t := range c.env {
		o.Hubs = append(o.Hubs, symRE.FindAllString(t.S, -1)...)
	}
	*c.obls = append(*c.obls, o)
}

// heap access -----------------------------------------------------------

func heapInitName(key string) string { return sanitize(key) + "@0" }

func (c *FnCtx) heapGet(st *State, key string, so *Sort) Term {
	if t, ok := st.heap[key]; ok {
		return t
	}
	n := heapInitName(key)
	c.e.d.declConst(n, so)
	c.heapTyping(n, key)
	return Term{S: n, Sort: so}
}

// heapTyping registers the well-typedness fact of an integer-valued heap array constant
// (every entry lies in the range of the field's Go type) as a background axiom that is
// included whenever the constant occurs in a query.
func (c *FnCtx) heapTyping(name, key string) {
	if strings.HasPrefix(key, "MD:") {
		// the nil map has no entries
		if so := c.e.d.consts[name]; so != nil && so.Kind == KArray && so.Elem.Kind == KArray {
			c.e.d.addAxiomTrig("nilmap."+name, fmt.Sprintf("(= (select %s nilV) ((as const %s) false))", name, so.Elem.SMT()), name)
		}
		return
	}
	t := c.e.heapElemType[key]
	if t == nil {
		return
	}
	rg := intRange(t, "(select "+name+" r)")
	if rg == "true" {
		return
	}
	c.e.d.addAxiomTrig("typing."+name, fmt.Sprintf("(forall ((r V)) (! %s :pattern ((select %s r))))", rg, name), name)
}

// freshHeap: a fresh (havoc) value for a heap key.
func (c *FnCtx) freshHeap(key string, so *Sort) Term {
	t := c.freshSort("h_"+key, so)
	c.heapTyping(t.S, key)
	return t
}

func (c *FnCtx) heapSet(st *State, key string, t Term) { st.heap[key] = t }

func fieldKey(named *types.Named, field string) string {
	return "F:" + named.Obj().Pkg().Path() + "." + named.Obj().Name() + "." + field
}

func (c *FnCtx) fieldArr(st *State, named *types.Named, f *types.Var) Term {
	if c.e.isInlineObj(named, f) {
		panic(unsup("inline-object field %s.%s used as a plain field (whole-struct copy of its owner, or a modifies designator naming it)", named.Obj().Name(), f.Name()))
	}
	so := arraySort(sV, c.e.d.sortOf(f.Type()))
	k := fieldKey(named, f.Name())
	if so.Elem.Kind == KInt {
		c.e.heapElemType[k] = f.Type()
	}
	return c.heapGet(st, k, so)
}

func mapTypeName(m *types.Map) string {
	return sanitize(types.TypeString(m, func(p *types.Package) string { return p.Name() }))
}

func (c *FnCtx) mapArrs(st *State, m *types.Map) (dom, val Term, dk, vk string) {
	ks := c.e.d.sortOf(m.Key())
	vs := c.e.d.sortOf(m.Elem())
	dk = "MD:" + mapTypeName(m)
	vk = "MV:" + mapTypeName(m)
	dom = c.heapGet(st, dk, arraySort(sV, arraySort(ks, sBool)))
	val = c.heapGet(st, vk, arraySort(sV, arraySort(ks, vs)))
	return
}

func (c *FnCtx) allocArr(st *State) Term {
	return c.heapGet(st, "alloc", arraySort(sV, sBool))
}

func (c *FnCtx) newRef(st *State, hint string) string {
	r := c.e.d.freshConst(hint, sV)
	al := c.allocArr(st)
	st.assume(sNot(sSel(al.S, r)))
	st.assume(sNot(sEq(r, "nilV")))
	c.heapSet(st, "alloc", Term{S: sSto(al.S, r, "true"), Sort: al.Sort})
	return r
}

// intRange returns the range fact for an integer-typed term, or "true".
func intRange(t types.Type, s string) string {
	b, ok := t.Underlying().(*types.Basic)
	if !ok || b.Info()&types.IsInteger == 0 {
		return "true"
	}
	switch b.Kind() {
	case types.Uint64, types.Uint, types.Uintptr:
		return fmt.Sprintf("(and (<= 0 %s) (<= %s 18446744073709551615))", s, s)
	case types.Uint32:
		return fmt.Sprintf("(and (<= 0 %s) (<= %s 4294967295))", s, s)
	case types.Uint16:
		return fmt.Sprintf("(and (<= 0 %s) (<= %s 65535))", s, s)
	case types.Uint8:
		return fmt.Sprintf("(and (<= 0 %s) (<= %s 255))", s, s)
	case types.Int64, types.Int:
		return fmt.Sprintf("(and (<= (- 9223372036854775808) %s) (<= %s 9223372036854775807))", s, s)
	case types.Int32:
		return fmt.Sprintf("(and (<= (- 2147483648) %s) (<= %s 2147483647))", s, s)
	case types.Int16:
		return fmt.Sprintf("(and (<= (- 32768) %s) (<= %s 32767))", s, s)
	case types.Int8:
		return fmt.Sprintf("(and (<= (- 128) %s) (<= %s 127))", s, s)
	}
	return "true"
}

// typeFacts: facts that hold of any well-typed Go value (integer ranges, slice shape).
func (c *FnCtx) typeFacts(t Term) string {
	if t.T == nil {
		return "true"
	}
	switch t.Sort.Kind {
	case KInt:
		return intRange(t.T, t.S)
	case KSlice:
		return fmt.Sprintf("(and (<= 0 (%s.len %s)) (<= 0 (%s.off %s)))", t.Sort.Name, t.S, t.Sort.Name, t.S)
	case KStruct:
		var fs []string
		for _, f := range t.Sort.Fields {
			if f.Sort.Kind == KInt || f.Sort.Kind == KStruct || f.Sort.Kind == KSlice {
				fs = append(fs, c.typeFacts(Term{S: sApp(t.Sort.sel(f.Name), t.S), Sort: f.Sort, T: f.Type}))
			}
		}
		return sAnd(fs...)
	case KV:
		switch t.T.Underlying().(type) {
		case *types.Pointer, *types.Map, *types.Chan:
			// reachable references are allocated
			return "true"
		}
	}
	return "true"
}

func (c *FnCtx) fresh(st *State, hint string, t types.Type) Term {
	so := c.e.d.sortOf(t)
	n := c.e.d.freshConst(hint, so)
	tm := Term{S: n, Sort: so, T: t}
	st.assume(c.typeFacts(tm))
	return tm
}

func (c *FnCtx) freshSort(hint string, so *Sort) Term {
	return Term{S: c.e.d.freshConst(hint, so), Sort: so}
}

func isRefType(t types.Type) bool {
	switch t.Underlying().(type) {
	case *types.Pointer, *types.Map, *types.Chan:
		return true
	}
	return false
}

// readFacts: facts assumed for a value read from the heap or received from outside.
func (c *FnCtx) readFacts(st *State, t Term) {
	st.assume(c.typeFacts(t))
	if c.typedRefs() && t.T != nil && t.Sort.Kind == KV {
		if tag, ok := c.refTag(t.T); ok {
			// Go's static typing: a non-nil value of pointer / map type refers to an object of exactly that type
			st.assume(sOr(sEq(t.S, "nilV"), sEq(sApp("dyntype", t.S), tag)))
		}
	}
	if t.T != nil && t.Sort.Kind == KV && isRefType(t.T) {
		al := c.allocArr(st)
		st.assume(sOr(sEq(t.S, "nilV"), sSel(al.S, t.S)))
	}
}
