package main

import (
	"go/ast"
	"go/token"
	"go/types"
	"strings"
)

// DrainingSends: in the named function every channel send is a case of a select that also has a receive case for
// each of the named channels, and the function calls none of the listed (blocking) functions. This is the shape of a
// goroutine that must keep emptying channels a peer goroutine may be blocked sending on while it waits for that same
// goroutine to take its own message - doing the two one after the other can deadlock both.
type DrainingSends struct {
	Function string   `json:"function"` // key relative to the module
	Recv     []string `json:"recv"`     // names of the channel variables that must be received from in the same select
	NoCall   []string `json:"no_call"`  // callee key suffixes the function must not call
	Why      string   `json:"why"`
}

func (e *Engine) drainingSendObligations(rules []DrainingSends) []*Obligation {
	var out []*Obligation
	for _, r := range rules {
		k := modPath + "/" + r.Function
		fi := e.funcs[k]
		if fi == nil || fi.Body == nil {
			out = append(out, &Obligation{Name: "effect:function-loaded(" + r.Function + ")", Fn: k, Kind: "effect", Desc: "function is loaded for the send scan", Goal: "false", Status: "error", Backend: "ast-scan"})
			continue
		}
		c := &FnCtx{e: e, fi: fi, info: fi.Pkg.TypesInfo}
		o := &Obligation{Name: "effect:draining-sends", Fn: k, Kind: "effect", Backend: "ast-scan", Goal: "true", Status: "unsat", Pos: c.pos(fi.Body.Pos()),
			Desc: "effect contract: every channel send in " + shortFn(k) + " is a select case next to receives from " + strings.Join(r.Recv, ", ") + ", and it calls none of " + strings.Join(r.NoCall, ", ") + " (" + r.Why + ")"}
		fail := func(pos token.Pos, what string) {
			if o.Status == "unsat" {
				o.Status = "sat"
				o.Raw = what + " at " + c.pos(pos)
				o.Desc += " — " + what + " at " + c.pos(pos)
				o.Pos = c.pos(pos)
			}
		}
		guarded := map[*ast.SendStmt]bool{}
		ast.Inspect(fi.Body, func(n ast.Node) bool {
			if _, isLit := n.(*ast.FuncLit); isLit && n != ast.Node(fi.Lit) {
				return false
			}
			if call, ok := n.(*ast.CallExpr); ok {
				if tv, ok := fi.Pkg.TypesInfo.Types[call.Fun]; !ok || !tv.IsType() {
					key, _ := c.calleeKey(call)
					for _, f := range r.NoCall {
						if key != "" && strings.HasSuffix(key, f) {
							fail(call.Pos(), "call of "+f)
						}
					}
				}
			}
			sel, ok := n.(*ast.SelectStmt)
			if !ok {
				return true
			}
			recvd := map[string]bool{}
			for _, cl := range sel.Body.List {
				var rx ast.Expr
				switch cm := cl.(*ast.CommClause).Comm.(type) {
				case *ast.ExprStmt:
					rx = cm.X
				case *ast.AssignStmt:
					if len(cm.Rhs) == 1 {
						rx = cm.Rhs[0]
					}
				}
				if u, ok := ast.Unparen(rx).(*ast.UnaryExpr); rx != nil && ok && u.Op == token.ARROW {
					if id, ok := ast.Unparen(u.X).(*ast.Ident); ok {
						if _, isVar := fi.Pkg.TypesInfo.Uses[id].(*types.Var); isVar {
							recvd[id.Name] = true
						}
					}
				}
			}
			all := true
			for _, want := range r.Recv {
				if !recvd[want] {
					all = false
				}
			}
			if all {
				for _, cl := range sel.Body.List {
					if ss, ok := cl.(*ast.CommClause).Comm.(*ast.SendStmt); ok {
						guarded[ss] = true
					}
				}
			}
			return true
		})
		ast.Inspect(fi.Body, func(n ast.Node) bool {
			if _, isLit := n.(*ast.FuncLit); isLit && n != ast.Node(fi.Lit) {
				return false
			}
			if ss, ok := n.(*ast.SendStmt); ok && !guarded[ss] {
				fail(ss.Pos(), "a send outside a select that also drains "+strings.Join(r.Recv, " and "))
			}
			return true
		})
		out = append(out, o)
	}
	return out
}

// AtomicSections: each named function takes the named mutex at most once: whatever it reads from the state the mutex
// guards and whatever it writes back belong to ONE critical section. (The function contracts are verified sequentially
// and rely on the lock for atomicity; a function that releases the lock between its check and its update is two steps,
// and other goroutines' steps may come in between.)
type AtomicSections struct {
	Functions []string `json:"functions"` // keys relative to the module
	Mutex     string   `json:"mutex"`     // field name of the mutex
	Why       string   `json:"why"`
}

func (e *Engine) atomicSectionObligations(rules []AtomicSections) []*Obligation {
	var out []*Obligation
	for _, r := range rules {
		for _, rel := range r.Functions {
			k := modPath + "/" + rel
			fi := e.funcs[k]
			if fi == nil || fi.Body == nil {
				out = append(out, &Obligation{Name: "effect:function-loaded(" + rel + ")", Fn: k, Kind: "effect", Desc: "function is loaded for the lock scan", Goal: "false", Status: "error", Backend: "ast-scan"})
				continue
			}
			c := &FnCtx{e: e, fi: fi, info: fi.Pkg.TypesInfo}
			o := &Obligation{Name: "effect:one-critical-section(" + r.Mutex + ")", Fn: k, Kind: "effect", Backend: "ast-scan", Goal: "true", Status: "unsat", Pos: c.pos(fi.Body.Pos()),
				Desc: "effect contract: " + shortFn(k) + " takes " + r.Mutex + " at most once - its check and its update are one atomic step (" + r.Why + ")"}
			n := 0
			ast.Inspect(fi.Body, func(nd ast.Node) bool {
				if _, isLit := nd.(*ast.FuncLit); isLit && nd != ast.Node(fi.Lit) {
					return false
				}
				call, ok := nd.(*ast.CallExpr)
				if !ok {
					return true
				}
				sel, ok := ast.Unparen(call.Fun).(*ast.SelectorExpr)
				if !ok || (sel.Sel.Name != "Lock" && sel.Sel.Name != "RLock") {
					return true
				}
				if inner, ok := ast.Unparen(sel.X).(*ast.SelectorExpr); ok && inner.Sel.Name == r.Mutex {
					n++
					if n == 2 {
						o.Status = "sat"
						o.Raw = "the mutex is taken a second time at " + c.pos(call.Pos())
						o.Desc += " — second critical section at " + c.pos(call.Pos())
						o.Pos = c.pos(call.Pos())
					}
				}
				return true
			})
			out = append(out, o)
		}
	}
	return out
}

// PanicSafeLocks: code that may panic (a call through a function value or an interface method: user-supplied storage
// functions, hooks, codecs) does not run while the named mutex is held, unless the unlock is deferred right after the
// lock. A recovered panic (C22) would otherwise leave the mutex locked for good.
type PanicSafeLocks struct {
	Functions []string `json:"functions"` // keys relative to the module
	Mutex     string   `json:"mutex"`     // field name of the mutex
	Why       string   `json:"why"`
}

func (e *Engine) panicSafeLockObligations(rules []PanicSafeLocks) []*Obligation {
	var out []*Obligation
	for _, r := range rules {
		for _, rel := range r.Functions {
			k := modPath + "/" + rel
			fi := e.funcs[k]
			if fi == nil || fi.Body == nil {
				out = append(out, &Obligation{Name: "effect:function-loaded(" + rel + ")", Fn: k, Kind: "effect", Desc: "function is loaded for the lock scan", Goal: "false", Status: "error", Backend: "ast-scan"})
				continue
			}
			info := fi.Pkg.TypesInfo
			c := &FnCtx{e: e, fi: fi, info: info}
			o := &Obligation{Name: "effect:panic-safe-lock(" + r.Mutex + ")", Fn: k, Kind: "effect", Backend: "ast-scan", Goal: "true", Status: "unsat", Pos: c.pos(fi.Body.Pos()),
				Desc: "effect contract: " + shortFn(k) + " makes no call through a function value or interface while it holds " + r.Mutex + " without a deferred unlock (" + r.Why + ")"}
			isMutexCall := func(n ast.Node, names ...string) bool {
				call, ok := n.(*ast.CallExpr)
				if !ok {
					return false
				}
				sel, ok := ast.Unparen(call.Fun).(*ast.SelectorExpr)
				if !ok {
					return false
				}
				inner, ok := ast.Unparen(sel.X).(*ast.SelectorExpr)
				if !ok || inner.Sel.Name != r.Mutex {
					return false
				}
				for _, nm := range names {
					if sel.Sel.Name == nm {
						return true
					}
				}
				return false
			}
			// deferred unlocks: a lock whose very next statement defers the unlock is safe
			safeLocks := map[ast.Node]bool{}
			ast.Inspect(fi.Body, func(n ast.Node) bool {
				blk, ok := n.(*ast.BlockStmt)
				if !ok {
					return true
				}
				for i := 0; i+1 < len(blk.List); i++ {
					es, ok := blk.List[i].(*ast.ExprStmt)
					if !ok || !isMutexCall(es.X, "Lock", "RLock") {
						continue
					}
					if ds, ok := blk.List[i+1].(*ast.DeferStmt); ok && isMutexCall(ds.Call, "Unlock", "RUnlock") {
						safeLocks[es.X] = true
					}
				}
				return true
			})
			held := false
			ast.Inspect(fi.Body, func(n ast.Node) bool {
				if _, isLit := n.(*ast.FuncLit); isLit && n != ast.Node(fi.Lit) {
					return false
				}
				if _, isDefer := n.(*ast.DeferStmt); isDefer {
					return false
				}
				call, ok := n.(*ast.CallExpr)
				if !ok {
					return true
				}
				switch {
				case isMutexCall(call, "Lock", "RLock"):
					held = !safeLocks[call]
				case isMutexCall(call, "Unlock", "RUnlock"):
					held = false
				case held && o.Status == "unsat":
					dynamic := false
					switch f := ast.Unparen(call.Fun).(type) {
					case *ast.Ident:
						_, dynamic = info.Uses[f].(*types.Var)
					case *ast.SelectorExpr:
						if s, ok := info.Selections[f]; ok {
							if s.Kind() == types.FieldVal {
								dynamic = true
							} else if _, isIface := s.Recv().Underlying().(*types.Interface); isIface {
								dynamic = true
							}
						}
					}
					if tv, ok := info.Types[call.Fun]; ok && tv.IsType() {
						dynamic = false
					}
					if dynamic {
						o.Status = "sat"
						o.Raw = "a call that may run user code while the mutex is held at " + c.pos(call.Pos())
						o.Desc += " — such a call at " + c.pos(call.Pos())
						o.Pos = c.pos(call.Pos())
					}
				}
				return true
			})
			out = append(out, o)
		}
	}
	return out
}
