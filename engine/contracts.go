package main

// Contract files: clause-structured comments.
//
// In /repo:   <pkg>/zz_contracts_verif.go  (//go:build verif, comment-only), lines start with "//@".
// In /verif:  contracts/deps/*.gsc (assumed contracts on dependencies), same clauses without the prefix.
//
// Clauses (a clause runs until the next line that starts with a keyword):
//   ghost NAME TYPE
//   pred NAME(x T, ...) := EXPR
//   fn NAME(x T, ...) RET                  uninterpreted spec function
//   axiom NAME: EXPR                       closed formula, assumed (trusted base)
//   lemmadef NAME(x T, ...): EXPR          parameterised assumed lemma, instantiated by `use`
//   onwrite T.f(x): G := EXPR              ghost update on every write of field f (x = the object)
//   onsend CHANELEM(ch, v): [requires EXPR ;] G := EXPR
//   opaque T                               treat module struct type T as opaque
//   func KEY                               function contract; KEY = Func | Type.Method | Func.funcN | importpath.Type.Method
//     params a, b, ...                     names for parameters (dependency contracts)
//     requires EXPR | ensures EXPR | modifies D, D, ...
//     loop N invariant EXPR
//     use NAME(args)                       instantiate lemmadef at every obligation of this function
//     inline | assumed | overflow checked | safety off | pure
//     effect NAME

import (
	"bufio"
	"fmt"
	"os"
	"regexp"
	"strconv"
	"strings"
)

type ParamDecl struct{ Name, Type string }

type PredDef struct {
	Name   string
	Params []ParamDecl
	Body   SExpr
	Src    string
}

type SpecFn struct {
	Name   string
	Params []ParamDecl
	Ret    string
}

type Axiom struct {
	Name   string
	Params []ParamDecl // lemmadef if non-nil or IsLemma
	IsLemma bool
	Body   SExpr
	Src    string
	File   string
}

type GhostUpdate struct {
	Target string
	Val    SExpr
}

// Invoke: higher-order step of an (assumed) callee contract. The closure literal passed for Param is executed
// inline at the call site with a freshly allocated object bound to Name (after the ghost initialisations).
type Invoke struct {
	Param, Name string
	Init        []GhostUpdate
}

// Iterate: higher-order step of an (assumed) callee contract: the closure literal passed for Param is called once
// per $i in [0, Count), in order, with the given argument expressions (over the callee's names and $i).
type Iterate struct {
	Param string
	Args  []SExpr
	Count SExpr
	Src   string
}

type OnWrite struct {
	TypeName, Field, Var string
	Updates            []GhostUpdate
}

type OnSend struct {
	DefPkg   string // channel hooks apply only inside the package that declares them
	OnlyFn   string // `onsend KIND:ELEM(ch, v) in FUNC: ...`: the hook applies only inside that function (and its closures)
	Elem     string
	Ch, Val  string
	Requires []Clause
	Updates  []GhostUpdate
}

type Clause struct {
	E    SExpr
	Src  string
	Line int
	Inv  bool // from an `objinv` clause: an object invariant of the callee's package (assumed, not checked, at calls from other packages)
}

type UseHint struct {
	Name string
	Args []SExpr
	Src  string
}

type FuncContract struct {
	Key       string
	File      string
	Line      int
	Params    []string
	Requires  []Clause
	Ensures   []Clause
	Modifies  []string
	HasMod    bool
	LoopInv   map[int][]Clause
	LoopExit  map[int][]Clause // loop N exit EXPR
	Uses     []UseHint
	Inline    bool
	Assumed   bool
	Overflow  bool
	SafetyOff bool
	Pure      bool
	Effects   []string
	Used      bool
	Absolute  bool
	DefPkg    string
	GhostUpd  []GhostUpdate
	SplitForall bool   // splitforall: prove `forall x :: A && B` as one obligation per conjunct
	Hide      []string // hide FAMILY: axiom families (e.g. card) left out of this function's queries
	Iterates  []Iterate // iterates PARAM(ARG, ...) count EXPR: the callee calls the closure passed as PARAM for $i = 0..count-1
	IterInv   map[string][]Clause // iterloop CALLEE invariant EXPR (caller side; $i = iterations completed)
	Invokes   []Invoke // invokes PARAM(NAME) [init G := E; ...]: the callee runs the closure passed as PARAM once, on a fresh object NAME
	GhostSrc  []string
	Trusts    []Clause
	Watches   []GhostUpdate
	Lenient   bool
	RecvNonNil bool
	CallSites []CallSiteAssert
}

type GhostDecl struct{ Name, Type string }

// CallSiteAssert: an assertion of the caller at every call of a callee (optionally guarded by a
// condition on the arguments); evaluated in the caller's scope with the callee's parameter names bound.
type CallSiteAssert struct {
	Callee string // suffix of the callee key
	ArgIs  string // if set: only call sites one of whose argument expressions starts with this source text
	When   SExpr
	Assert SExpr
	Src    string
	Line   int
}

type ContractSet struct {
	PkgPath  string // package the file belongs to ("" for deps files)
	Ghosts   []GhostDecl
	Preds    map[string]*PredDef
	Fns      map[string]*SpecFn
	Axioms   []*Axiom
	OnWrites []*OnWrite
	OnSends  []*OnSend
	Opaque   []string
	Transparent []string
	OnlyFor   []string // onlyfor ID ...: the packs that see this file's contracts (engine.go loadEngine)
	TypedRefs bool     // typedrefs: allocation and typed reads record the dynamic type of references (typedrefs.go)
	InlineObj []string // inlineobj Type.field: struct-valued field modelled as a fixed sub-object (inlineobj.go)
	Funcs   map[string]*FuncContract
	FuncOrd  []string
}

func newContractSet(pkg string) *ContractSet {
	return &ContractSet{PkgPath: pkg, Preds: map[string]*PredDef{}, Fns: map[string]*SpecFn{}, Funcs: map[string]*FuncContract{}}
}

var clauseKW = map[string]bool{"recvnonnil": true, "onlyfor": true, "objinv": true, "typedrefs": true, "inlineobj": true, "iterates": true, "iterloop": true, "invokes": true, "hide": true, "splitforall": true, "ghost": true, "pred": true, "fn": true, "axiom": true, "lemmadef": true, "onwrite": true, "onsend": true,
	"opaque": true, "transparent": true, "lenient": true, "callsite": true, "func": true, "params": true, "requires": true, "ensures": true, "modifies": true, "loop": true, "use": true,
	"inline": true, "assumed": true, "overflow": true, "safety": true, "pure": true, "effect": true, "watch": true, "trusts": true}

type rawClause struct {
	kw   string
	text string
	line int
}

func readClauses(path string, prefixed bool) ([]rawClause, error) {
	f, err := os.Open(path)
	if err != nil {
		return nil, err
	}
	defer f.Close()
	var out []rawClause
	sc := bufio.NewScanner(f)
	sc.Buffer(make([]byte, 1<<20), 1<<20)
	ln := 0
	for sc.Scan() {
		ln++
		line := sc.Text()
		if prefixed {
			t := strings.TrimSpace(line)
			if !strings.HasPrefix(t, "//@") {
				continue
			}
			line = strings.TrimPrefix(t, "//@")
		}
		if i := strings.Index(line, "--"); i >= 0 { // comment to end of line
			line = line[:i]
		}
		t := strings.TrimSpace(line)
		if t == "" || strings.HasPrefix(t, "#") {
			continue
		}
		first := t
		if i := strings.IndexAny(t, " \t"); i >= 0 {
			first = t[:i]
		}
		if clauseKW[first] {
			out = append(out, rawClause{first, strings.TrimSpace(t[len(first):]), ln})
		} else {
			if len(out) == 0 {
				return nil, fmt.Errorf("%s:%d: text before first clause", path, ln)
			}
			out[len(out)-1].text += " " + t
		}
	}
	return out, sc.Err()
}

var reParams = regexp.MustCompile(`^([A-Za-z_][A-Za-z0-9_]*)\s*\(([^)]*)\)\s*(.*)$`)

func parseParamList(s string) []ParamDecl {
	var out []ParamDecl
	s = strings.TrimSpace(s)
	if s == "" {
		return []ParamDecl{}
	}
	for _, p := range strings.Split(s, ",") {
		p = strings.TrimSpace(p)
		i := strings.IndexAny(p, " \t")
		if i < 0 {
			out = append(out, ParamDecl{p, ""})
		} else {
			out = append(out, ParamDecl{p[:i], strings.TrimSpace(p[i:])})
		}
	}
	return out
}

func parseGhostUpdates(s string, where string) ([]GhostUpdate, error) {
	var ups []GhostUpdate
	for _, part := range strings.Split(s, ";") {
		part = strings.TrimSpace(part)
		if part == "" {
			continue
		}
		i := strings.Index(part, ":=")
		if i < 0 {
			return nil, fmt.Errorf("%s: ghost update needs ':='", where)
		}
		e, err := parseSpec(part[i+2:])
		if err != nil {
			return nil, fmt.Errorf("%s: %v", where, err)
		}
		ups = append(ups, GhostUpdate{strings.TrimSpace(part[:i]), e})
	}
	return ups, nil
}

func loadContractFile(path string, prefixed bool, pkgPath string) (*ContractSet, error) {
	rcs, err := readClauses(path, prefixed)
	if err != nil {
		return nil, err
	}
	cs := newContractSet(pkgPath)
	var cur *FuncContract
	for _, rc := range rcs {
		where := fmt.Sprintf("%s:%d", path, rc.line)
		switch rc.kw {
		case "ghost":
			if strings.Contains(rc.text, ":=") {
				if cur == nil {
					return nil, fmt.Errorf("%s: ghost update outside a func contract", where)
				}
				ups, err := parseGhostUpdates(rc.text, where)
				if err != nil {
					return nil, err
				}
				for _, u := range ups {
					cur.GhostUpd = append(cur.GhostUpd, u)
					cur.GhostSrc = append(cur.GhostSrc, rc.text)
				}
				continue
			}
			i := strings.IndexAny(rc.text, " \t")
			if i < 0 {
				return nil, fmt.Errorf("%s: ghost NAME TYPE", where)
			}
			cs.Ghosts = append(cs.Ghosts, GhostDecl{rc.text[:i], strings.TrimSpace(rc.text[i:])})
			cur = nil
		case "opaque":
			cs.Opaque = append(cs.Opaque, rc.text)
			cur = nil
		case "transparent":
			cs.Transparent = append(cs.Transparent, rc.text)
			cur = nil
		case "typedrefs":
			cs.TypedRefs = true
			cur = nil
		case "onlyfor":
			cs.OnlyFor = append(cs.OnlyFor, strings.Fields(rc.text)...)
			cur = nil
		case "inlineobj":
			cs.InlineObj = append(cs.InlineObj, strings.Fields(rc.text)...)
			cur = nil
		case "pred":
			i := strings.Index(rc.text, ":=")
			if i < 0 {
				return nil, fmt.Errorf("%s: pred needs ':='", where)
			}
			m := reParams.FindStringSubmatch(strings.TrimSpace(rc.text[:i]))
			if m == nil {
				return nil, fmt.Errorf("%s: bad pred head", where)
			}
			body, err := parseSpec(rc.text[i+2:])
			if err != nil {
				return nil, fmt.Errorf("%s: %v", where, err)
			}
			cs.Preds[m[1]] = &PredDef{m[1], parseParamList(m[2]), body, rc.text}
			cur = nil
		case "fn":
			m := reParams.FindStringSubmatch(rc.text)
			if m == nil {
				return nil, fmt.Errorf("%s: bad fn head", where)
			}
			cs.Fns[m[1]] = &SpecFn{m[1], parseParamList(m[2]), strings.TrimSpace(m[3])}
			cur = nil
		case "axiom", "lemmadef":
			i := strings.Index(rc.text, ":")
			if i < 0 {
				return nil, fmt.Errorf("%s: %s NAME: EXPR", where, rc.kw)
			}
			head := strings.TrimSpace(rc.text[:i])
			// ':' may be inside the params? params contain no ':'
			ax := &Axiom{Src: rc.text, File: path}
			if m := reParams.FindStringSubmatch(head); m != nil {
				ax.Name = m[1]
				ax.Params = parseParamList(m[2])
			} else {
				ax.Name = head
			}
			ax.IsLemma = rc.kw == "lemmadef"
			body, err := parseSpec(rc.text[i+1:])
			if err != nil {
				return nil, fmt.Errorf("%s: %v", where, err)
			}
			ax.Body = body
			cs.Axioms = append(cs.Axioms, ax)
			cur = nil
		case "onwrite":
			i := strings.Index(rc.text, ":")
			m := regexp.MustCompile(`^([A-Za-z_0-9]+)\.([A-Za-z_0-9]+)\s*\(\s*([A-Za-z_0-9]+)\s*\)$`).FindStringSubmatch(strings.TrimSpace(rc.text[:i]))
			if m == nil {
				return nil, fmt.Errorf("%s: onwrite T.f(x): G := E", where)
			}
			ups, err := parseGhostUpdates(rc.text[i+1:], where)
			if err != nil {
				return nil, err
			}
			cs.OnWrites = append(cs.OnWrites, &OnWrite{m[1], m[2], m[3], ups})
			cur = nil
		case "onsend":
			onlyFn := ""
			if m := regexp.MustCompile(`\)\s+in\s+([A-Za-z_][A-Za-z0-9_.]*)\s*:`).FindStringSubmatchIndex(rc.text); m != nil {
				onlyFn = rc.text[m[2]:m[3]]
				rc.text = rc.text[:m[0]+1] + ":" + rc.text[m[1]:]
			}
			i := strings.Index(rc.text, "):")
			if i < 0 {
				return nil, fmt.Errorf("%s: onsend ELEM(ch, v): ...", where)
			}
			head := rc.text[:i]
			j := strings.LastIndex(head, "(")
			ps := parseParamList(head[j+1:])
			if len(ps) != 2 {
				return nil, fmt.Errorf("%s: onsend needs (ch, v)", where)
			}
			os := &OnSend{Elem: strings.TrimSpace(head[:j]), Ch: ps[0].Name, Val: ps[1].Name, OnlyFn: onlyFn}
			rest := rc.text[i+2:]
			var upd []string
			for _, part := range strings.Split(rest, ";") {
				part = strings.TrimSpace(part)
				if strings.HasPrefix(part, "requires ") {
					e, err := parseSpec(strings.TrimPrefix(part, "requires "))
					if err != nil {
						return nil, fmt.Errorf("%s: %v", where, err)
					}
					os.Requires = append(os.Requires, Clause{E: e, Src: part, Line: rc.line})
				} else if strings.HasPrefix(part, "assume ") {
					// a guard of the event (a receive happens only when something is there to receive; the default
					// case of a select only when nothing is): assumed on the path, not an obligation
					e, err := parseSpec(strings.TrimPrefix(part, "assume "))
					if err != nil {
						return nil, fmt.Errorf("%s: %v", where, err)
					}
					os.Requires = append(os.Requires, Clause{E: e, Src: part, Line: rc.line, Inv: true})
				} else if part != "" {
					upd = append(upd, part)
				}
			}
			ups, err := parseGhostUpdates(strings.Join(upd, ";"), where)
			if err != nil {
				return nil, err
			}
			os.Updates = ups
			cs.OnSends = append(cs.OnSends, os)
			cur = nil
		case "func":
			key := strings.TrimSpace(rc.text)
			std := strings.HasPrefix(key, "std:") // std:sync.Pool.Get – a standard-library key (no slash in its import path)
			key = strings.TrimPrefix(key, "std:")
			if _, dup := cs.Funcs[key]; dup {
				return nil, fmt.Errorf("%s: duplicate contract for %s", where, key)
			}
			cur = &FuncContract{Key: key, File: path, Line: rc.line, LoopInv: map[int][]Clause{}}
			if strings.Contains(key, "/") || std {
				cur.Absolute = true
			}
			cs.Funcs[key] = cur
			cs.FuncOrd = append(cs.FuncOrd, key)
		default:
			if cur == nil {
				return nil, fmt.Errorf("%s: clause %q outside a func contract", where, rc.kw)
			}
			switch rc.kw {
			case "params":
				for _, p := range strings.Split(rc.text, ",") {
					cur.Params = append(cur.Params, strings.TrimSpace(p))
				}
			case "requires", "ensures", "objinv":
				e, err := parseSpec(rc.text)
				if err != nil {
					return nil, fmt.Errorf("%s: %v", where, err)
				}
				cl := Clause{E: e, Src: rc.text, Line: rc.line}
				switch rc.kw {
				case "requires":
					cur.Requires = append(cur.Requires, cl)
				case "ensures":
					cur.Ensures = append(cur.Ensures, cl)
				default:
					// object invariant: holds on entry and exit of every function of its package; callers in
					// other packages cannot break it (unexported state) and therefore assume it instead of proving it
					cl.Inv = true
					cur.Requires = append(cur.Requires, cl)
					cur.Ensures = append(cur.Ensures, cl)
				}
			case "trusts":
				// trusts EXPR: a postcondition callers may assume but that is NOT checked against the body
				// (an assumption about the environment; listed in the trusted base)
				e, err := parseSpec(rc.text)
				if err != nil {
					return nil, fmt.Errorf("%s: %v", where, err)
				}
				cur.Trusts = append(cur.Trusts, Clause{E: e, Src: rc.text, Line: rc.line})
			case "modifies":
				cur.HasMod = true
				for _, p := range splitTop(rc.text) {
					if p = strings.TrimSpace(p); p != "" && p != "nothing" {
						cur.Modifies = append(cur.Modifies, p)
					}
				}
			case "loop":
				f := strings.Fields(rc.text)
				if len(f) >= 3 && f[1] == "exit" {
					// loop N exit EXPR: holds whenever the loop is left (guard false or break)
					n, err := strconv.Atoi(f[0])
					if err != nil {
						return nil, fmt.Errorf("%s: loop ordinal: %v", where, err)
					}
					src := strings.TrimSpace(rc.text[strings.Index(rc.text, "exit")+len("exit"):])
					e, err := parseSpec(src)
					if err != nil {
						return nil, fmt.Errorf("%s: %v", where, err)
					}
					if cur.LoopExit == nil {
						cur.LoopExit = map[int][]Clause{}
					}
					cur.LoopExit[n] = append(cur.LoopExit[n], Clause{E: e, Src: src, Line: rc.line})
					break
				}
				if len(f) < 3 || f[1] != "invariant" {
					return nil, fmt.Errorf("%s: loop N invariant EXPR", where)
				}
				n, err := strconv.Atoi(f[0])
				if err != nil {
					return nil, fmt.Errorf("%s: loop ordinal: %v", where, err)
				}
				src := strings.TrimSpace(rc.text[strings.Index(rc.text, "invariant")+len("invariant"):])
				e, err := parseSpec(src)
				if err != nil {
					return nil, fmt.Errorf("%s: %v", where, err)
				}
				cur.LoopInv[n] = append(cur.LoopInv[n], Clause{E: e, Src: src, Line: rc.line})
			case "splitforall":
				cur.SplitForall = true
			case "hide":
				cur.Hide = append(cur.Hide, strings.Fields(rc.text)...)
			case "iterates":
				i := strings.Index(rc.text, " count ")
				if i < 0 {
					return nil, fmt.Errorf("%s: iterates PARAM(ARG, ...) count EXPR", where)
				}
				ce, err := parseSpec(rc.text[:i])
				if err != nil {
					return nil, fmt.Errorf("%s: %v", where, err)
				}
				ic, ok := ce.(*SCall)
				if !ok {
					return nil, fmt.Errorf("%s: iterates PARAM(ARG, ...) count EXPR", where)
				}
				cnt, err := parseSpec(rc.text[i+7:])
				if err != nil {
					return nil, fmt.Errorf("%s: %v", where, err)
				}
				cur.Iterates = append(cur.Iterates, Iterate{Param: ic.Fun, Args: ic.Args, Count: cnt, Src: rc.text})
			case "iterloop":
				i := strings.Index(rc.text, " invariant ")
				if i < 0 {
					return nil, fmt.Errorf("%s: iterloop CALLEE invariant EXPR", where)
				}
				callee := strings.TrimSpace(rc.text[:i])
				src := strings.TrimSpace(rc.text[i+11:])
				ie, err := parseSpec(src)
				if err != nil {
					return nil, fmt.Errorf("%s: %v", where, err)
				}
				if cur.IterInv == nil {
					cur.IterInv = map[string][]Clause{}
				}
				cur.IterInv[callee] = append(cur.IterInv[callee], Clause{E: ie, Src: src, Line: rc.line})
			case "invokes":
				txt := rc.text
				var init []GhostUpdate
				if i := strings.Index(txt, " init "); i >= 0 {
					ups, err := parseGhostUpdates(txt[i+6:], where)
					if err != nil {
						return nil, fmt.Errorf("%s: %v", where, err)
					}
					init = ups
					txt = txt[:i]
				}
				e, err := parseSpec(txt)
				if err != nil {
					return nil, fmt.Errorf("%s: %v", where, err)
				}
				ic, ok := e.(*SCall)
				if !ok || len(ic.Args) != 1 {
					return nil, fmt.Errorf("%s: invokes PARAM(NAME) [init G := E; ...]", where)
				}
				nm, ok := ic.Args[0].(*SIdent)
				if !ok {
					return nil, fmt.Errorf("%s: invokes PARAM(NAME): NAME must be an identifier", where)
				}
				cur.Invokes = append(cur.Invokes, Invoke{Param: ic.Fun, Name: nm.Name, Init: init})
			case "use":
				e, err := parseSpec(rc.text)
				if err != nil {
					return nil, fmt.Errorf("%s: %v", where, err)
				}
				c, ok := e.(*SCall)
				if !ok {
					return nil, fmt.Errorf("%s: use NAME(args)", where)
				}
				cur.Uses = append(cur.Uses, UseHint{c.Fun, c.Args, rc.text})
			case "recvnonnil":
				// the receiver of this (dependency) method is assumed non-nil at every call: no nil-receiver obligation
				cur.RecvNonNil = true
			case "lenient":
				cur.Lenient = true
			case "callsite":
				// callsite CALLEE [when EXPR]: assert EXPR
				i := strings.Index(rc.text, ": assert ")
				if i < 0 {
					return nil, fmt.Errorf("%s: callsite CALLEE [when EXPR]: assert EXPR", where)
				}
				head, body := strings.TrimSpace(rc.text[:i]), rc.text[i+len(": assert "):]
				csa := CallSiteAssert{Src: rc.text, Line: rc.line}
				if j := strings.Index(head, " when "); j >= 0 {
					w, err := parseSpec(head[j+6:])
					if err != nil {
						return nil, fmt.Errorf("%s: %v", where, err)
					}
					csa.When = w
					head = strings.TrimSpace(head[:j])
				}
				if j := strings.Index(head, " argis "); j >= 0 {
					csa.ArgIs = strings.Trim(strings.TrimSpace(head[j+7:]), "\"")
					head = strings.TrimSpace(head[:j])
				}
				csa.Callee = head
				a, err := parseSpec(body)
				if err != nil {
					return nil, fmt.Errorf("%s: %v", where, err)
				}
				csa.Assert = a
				cur.CallSites = append(cur.CallSites, csa)
			case "inline":
				cur.Inline = true
			case "assumed":
				cur.Assumed = true
			case "pure":
				cur.Pure = true
			case "overflow":
				cur.Overflow = strings.TrimSpace(rc.text) == "checked"
			case "safety":
				cur.SafetyOff = strings.TrimSpace(rc.text) == "off"
			case "watch":
				// watch NAME: EXPR   (entry-state value reported from counterexample models)
				i := strings.Index(rc.text, ":")
				if i < 0 {
					return nil, fmt.Errorf("%s: watch NAME: EXPR", where)
				}
				w, err := parseSpec(rc.text[i+1:])
				if err != nil {
					return nil, fmt.Errorf("%s: %v", where, err)
				}
				cur.Watches = append(cur.Watches, GhostUpdate{strings.TrimSpace(rc.text[:i]), w})
			case "effect":
				cur.Effects = append(cur.Effects, strings.Fields(rc.text)...)
			}
		}
	}
	return cs, nil
}
