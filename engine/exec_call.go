package main

import (
	"fmt"
	"go/ast"
	"go/token"
	"go/types"
	"strings"
)

// isDroppedCallee: calls that VC generation drops (DESIGN.md §2.9). Results are havoc;
// nonNil says the single result is known non-nil.
func isDroppedCallee(key string) (dropped bool, nonNil bool) {
	switch {
	case strings.HasPrefix(key, "go.uber.org/zap."), strings.HasPrefix(key, "github.com/ipfs/go-log/v2."):
		return true, false
	case strings.HasPrefix(key, "go.opentelemetry.io/"):
		return true, false
	case strings.HasPrefix(key, "sync.Mutex."), strings.HasPrefix(key, "sync.RWMutex."), strings.HasPrefix(key, "sync.Once."):
		return true, false
	case key == "fmt.Errorf", key == "errors.New":
		return true, true
	case key == "fmt.Sprintf", key == "fmt.Sprint", key == "fmt.Sprintln":
		return true, false
	case strings.HasPrefix(key, "time."):
		return true, false
	}
	return false, false
}

// calleeKey resolves the static callee of a call; returns "" if it is a dynamic call of a func value.
func (c *FnCtx) calleeKey(call *ast.CallExpr) (string, *types.Func) {
	fun := ast.Unparen(call.Fun)
	switch f := fun.(type) {
	case *ast.Ident:
		if fn, ok := c.info.Uses[f].(*types.Func); ok {
			return funcKeyOf(fn), fn
		}
	case *ast.SelectorExpr:
		if sel, ok := c.info.Selections[f]; ok {
			if fn, ok := sel.Obj().(*types.Func); ok && sel.Kind() == types.MethodVal {
				// for embedded interface / promoted methods the key uses the method's own receiver
				return funcKeyOf(fn), fn
			}
			return "", nil
		}
		if fn, ok := c.info.Uses[f.Sel].(*types.Func); ok {
			return funcKeyOf(fn), fn
		}
	case *ast.IndexExpr: // generic instantiation f[T](...)
		if id, ok := f.X.(*ast.Ident); ok {
			if fn, ok := c.info.Uses[id].(*types.Func); ok {
				return funcKeyOf(fn), fn
			}
		}
	}
	return "", nil
}

// funcValKey names a dynamic call target: a func-typed field or parameter.
func (c *FnCtx) funcValKey(call *ast.CallExpr) string {
	fun := ast.Unparen(call.Fun)
	switch f := fun.(type) {
	case *ast.Ident:
		if v, ok := c.info.Uses[f].(*types.Var); ok {
			// parameter or local of the current (or enclosing) function
			return c.baseKey() + "$" + v.Name()
		}
	case *ast.SelectorExpr:
		if sel, ok := c.info.Selections[f]; ok && sel.Kind() == types.FieldVal {
			recv := sel.Recv()
			if n, _, _ := derefNamedStruct(recv); n != nil {
				return n.Obj().Pkg().Path() + "." + n.Obj().Name() + "$" + f.Sel.Name
			}
		}
	}
	return ""
}

func (c *FnCtx) baseKey() string {
	fi := c.fi
	for fi.Outer != nil {
		fi = fi.Outer
	}
	return fi.Key
}

func (c *FnCtx) evalArgs(st *State, call *ast.CallExpr, sig *types.Signature) []Term {
	var args []Term
	// f(g()) with multi-value g
	if len(call.Args) == 1 && sig.Params().Len() > 1 {
		if inner, ok := ast.Unparen(call.Args[0]).(*ast.CallExpr); ok {
			rs := c.evalCall(st, inner)
			for i, r := range rs {
				args = append(args, c.coerce(st, r, sig.Params().At(i).Type()))
			}
			return args
		}
	}
	np := sig.Params().Len()
	for i, a := range call.Args {
		var pt types.Type
		if sig.Variadic() && i >= np-1 {
			if call.Ellipsis != token.NoPos {
				pt = sig.Params().At(np - 1).Type()
			} else {
				pt = sig.Params().At(np - 1).Type().(*types.Slice).Elem()
			}
		} else if i < np {
			pt = sig.Params().At(i).Type()
		}
		args = append(args, c.coerce(st, c.evalExpr(st, a), pt))
	}
	if sig.Variadic() && call.Ellipsis == token.NoPos {
		// pack variadic tail into a slice
		vt := sig.Params().At(np - 1).Type()
		so := c.e.d.sortOf(vt)
		cur := Term{S: c.e.d.zero(so), Sort: so, T: vt}
		fixed := args
		var tail []Term
		if len(args) >= np-1 {
			fixed = args[:np-1]
			tail = args[np-1:]
		}
		for _, t := range tail {
			cur = Term{S: sliceAppend(cur, t.S), Sort: so, T: vt}
		}
		args = append(append([]Term(nil), fixed...), cur)
	}
	return args
}

func (c *FnCtx) havocResults(st *State, sig *types.Signature, hint string) []Term {
	var rs []Term
	for i := 0; i < sig.Results().Len(); i++ {
		t := c.fresh(st, hint+"_r", sig.Results().At(i).Type())
		c.readFacts(st, t)
		rs = append(rs, t)
	}
	return rs
}

func (c *FnCtx) evalCall(st *State, call *ast.CallExpr) []Term {
	d := c.e.d
	// conversion
	if tv, ok := c.info.Types[call.Fun]; ok && tv.IsType() {
		v := c.evalExpr(st, call.Args[0])
		return []Term{c.convert(st, v, tv.Type, call.Pos())}
	}
	// builtin
	if id, ok := ast.Unparen(call.Fun).(*ast.Ident); ok {
		if _, ok := c.info.Uses[id].(*types.Builtin); ok {
			return c.builtin(st, id.Name, call)
		}
	}
	// immediately invoked closure
	if lit, ok := ast.Unparen(call.Fun).(*ast.FuncLit); ok {
		key := c.e.litKey[lit]
		fi := c.e.funcs[key]
		if fi == nil {
			panic(unsup("unknown closure"))
		}
		var args []Term
		for _, a := range call.Args {
			args = append(args, c.evalExpr(st, a))
		}
		return c.inlineCall(st, fi, Term{}, args, call.Pos())
	}
	key, fn := c.calleeKey(call)
	prevArgs := c.curCallArgs
	var myArgs []string
	for _, a := range call.Args {
		myArgs = append(myArgs, c.exprText(a))
	}
	c.curCallArgs = myArgs
	prevExprs := c.curCallExprs
	c.curCallExprs = call.Args
	defer func() { c.curCallArgs = prevArgs; c.curCallExprs = prevExprs }()
	if key == "" {
		fk := c.funcValKey(call)
		sig, _ := c.typeOf(call.Fun).Underlying().(*types.Signature)
		if sig == nil {
			panic(unsup("dynamic call at %s", c.pos(call.Pos())))
		}
		fv := c.evalExpr(st, call.Fun)
		fc, ok := c.e.contracts[fk]
		if !ok {
			if c.lenient() {
				args := c.evalArgs(st, call, sig)
				c.callSiteAsserts(st, "$"+lastSeg(fk), sig, Term{}, nil, args, call.Pos())
				c.e.trusted["lenient: call of func value "+fk+" in "+c.fi.Key+" abstracted (results havoc, no effect on modelled state)"] = true
				return c.havocResults(st, sig, "fv")
			}
			panic(toolErr("no contract for func value %q called at %s", fk, c.pos(call.Pos())))
		}
		args := c.evalArgs(st, call, sig)
		c.callSiteAsserts(st, fk, sig, Term{}, nil, args, call.Pos())
		if c.safety {
			c.nilCheck(st, fv, call.Pos(), "funcvalue")
		}
		return c.applyContract(st, fc, sig, Term{}, nil, args, call.Pos(), fk, c.fi.Pkg.PkgPath)
	}
	sig := fn.Type().(*types.Signature)
	if dr, nonNil := isDroppedCallee(key); dr {
		for _, a := range call.Args {
			if !containsEffectfulCall(c, a) {
				continue
			}
			c.evalExpr(st, a)
		}
		rs := c.havocResults(st, sig, "dropped")
		if nonNil && len(rs) == 1 {
			st.assume(sNot(sEq(rs[0].S, "nilV")))
		}
		return rs
	}
	// receiver
	var recv Term
	hasRecv := false
	addrOfValue := false // pointer-receiver method called on an addressable VALUE: &v is never nil
	if sel, ok := ast.Unparen(call.Fun).(*ast.SelectorExpr); ok {
		if s, ok := c.info.Selections[sel]; ok && s.Kind() == types.MethodVal {
			hasRecv = true
			recv = c.evalExpr(st, sel.X)
			// promoted through embedded fields
			if idx := s.Index(); len(idx) > 1 {
				recv = c.selectPath(st, recv, idx[:len(idx)-1], sel.Pos())
			}
			// auto-deref: value receiver called through pointer
			if rt := sig.Recv().Type(); rt != nil {
				_, recvIsPtr := rt.Underlying().(*types.Pointer)
				_, haveIsPtr := recv.T.Underlying().(*types.Pointer)
				if !recvIsPtr && haveIsPtr {
					if _, isIface := rt.Underlying().(*types.Interface); !isIface {
						if nn, _, _ := derefNamedStruct(recv.T); nn != nil && !c.e.d.modelled(nn) && !c.typedRefs() {
							// (packages that declare `typedrefs` take the other branch: p.M() reads the value p points at,
							// exactly like an explicit (*p).M(), so &x / *p / p.M() agree on one cell)
							// opaque dependency struct: a value-receiver method called through the pointer sees
							// "the object"; the pointer stands for it (no separate value term)
							if c.safety {
								c.nilCheck(st, recv, sel.Pos(), "recv")
							}
						} else {
							recv = c.derefValue(st, recv, sel.Pos())
						}
					}
				}
				if recvIsPtr && !haveIsPtr {
					if _, isIface := recv.T.Underlying().(*types.Interface); !isIface {
						addrOfValue = true
						if dr, _ := isDroppedCallee(key); !dr {
							if nn, _, _ := derefNamedStruct(recv.T); nn != nil && c.e.d.modelled(nn) {
								panic(unsup("pointer-receiver method on addressable value at %s", c.pos(call.Pos())))
							}
							// opaque dependency struct: the receiver stays an opaque value
						}
					}
				}
			}
		}
	}
	if dr, nonNil := isDroppedCallee(key); dr {
		for _, a := range call.Args {
			if !containsEffectfulCall(c, a) {
				continue
			}
			c.evalExpr(st, a)
		}
		rs := c.havocResults(st, sig, "dropped")
		if nonNil && len(rs) == 1 {
			st.assume(sNot(sEq(rs[0].S, "nilV")))
		}
		return rs
	}
	fc, ok := c.e.contracts[key]
	if !ok {
		if c.lenient() {
			args := c.evalArgs(st, call, sig)
			c.callSiteAsserts(st, key, sig, recv, sig.Recv(), args, call.Pos())
			if fn.Pkg() != nil && c.e.d.inModule(fn.Pkg()) {
				c.e.trusted["lenient: module function "+shortFn(key)+" has no contract; its call in "+shortFn(c.fi.Key)+" is abstracted (results havoc, effects on modelled state NOT modelled)"] = true
			} else {
				c.e.trusted["lenient: dependency function "+key+" abstracted (results havoc, no effect on modelled state)"] = true
			}
			return c.havocResults(st, sig, "len")
		}
		// tiny accessor convention is not assumed: everything needs a contract
		panic(toolErr("no contract for %s called from %s at %s", key, c.fi.Key, c.pos(call.Pos())))
	}
	fc.Used = true
	args := c.evalArgs(st, call, sig)
	c.callSiteAsserts(st, key, sig, recv, sig.Recv(), args, call.Pos())
	if fc.RecvNonNil {
		c.e.trusted["receiver of "+key+" assumed non-nil at every call"] = true
	}
	if hasRecv && c.safety && !fc.RecvNonNil {
		if _, isPtr := sig.Recv().Type().Underlying().(*types.Pointer); isPtr {
			if !addrOfValue {
				c.nilCheck(st, recv, call.Pos(), "receiver:"+fn.Name())
			}
		} else if _, isIface := sig.Recv().Type().Underlying().(*types.Interface); isIface {
			c.nilCheck(st, recv, call.Pos(), "iface:"+fn.Name())
		}
	}
	if fc.Inline {
		fi := c.e.funcs[key]
		if fi == nil {
			panic(toolErr("inline contract for %s but no body available", key))
		}
		return c.inlineCall(st, fi, recv, args, call.Pos())
	}
	_ = d
	calleePkg := ""
	if fn.Pkg() != nil {
		calleePkg = fn.Pkg().Path()
	}
	return c.applyContract(st, fc, sig, recv, sig.Recv(), args, call.Pos(), key, calleePkg)
}

// applyContract: assert requires, havoc the modifies footprint, assume ensures.
func (c *FnCtx) applyContract(st *State, fc *FuncContract, sig *types.Signature, recv Term, recvVar *types.Var, args []Term, pos token.Pos, key string, calleePkg string) []Term {
	env := map[string]Term{}
	if strings.Contains(key, "$") {
		// contract of a func-valued parameter / field (a callback contract): it may mention the
		// caller's own names (e.g. the size the enclosing function was asked to reserve)
		for k, v := range c.specCtx(st).env {
			env[k] = v
		}
	}
	if recvVar != nil {
		name := recvVar.Name()
		if name == "" || name == "_" {
			name = "self"
		}
		env[name] = recv
		env["self"] = recv
	}
	for i := 0; i < sig.Params().Len() && i < len(args); i++ {
		name := sig.Params().At(i).Name()
		if i < len(fc.Params) {
			name = fc.Params[i]
		}
		if name == "" || name == "_" {
			name = fmt.Sprintf("arg%d", i)
		}
		env[name] = args[i]
	}
	pkg := c.e.pkgs[calleePkg]
	if fc.DefPkg != "" {
		pkg = c.e.pkgs[fc.DefPkg]
	}
	if pkg == nil || pkg.Types == nil || !c.e.d.inModule(pkg.Types) {
		if pkg == nil || pkg.Types == nil {
			pkg = c.fi.Pkg
		}
	}
	short := key
	if i := strings.LastIndex(key, "/"); i >= 0 {
		short = key[i+1:]
	}
	pre := st.clone()
	sc := &SpecCtx{c: c, pkg: pkg, env: env, st: st, old: pre}
	for i, r := range fc.Requires {
		if r.Inv && c.crossPackage(key) {
			// object invariant of another package: its state is unexported, so nothing here can have broken it
			st.assume(sc.eval(r.E).S)
			c.e.trusted["object invariant of "+shortFn(key)+" assumed at a call from another package (established and preserved inside its own package: checked there; unexported state)"] = true
			continue
		}
		for _, cj := range sc.evalConjuncts(r.E, "") {
			c.oblige(st, "pre", fmt.Sprintf("%s/requires%d%s", short, i+1, cj.Path), pos, cj.Term.S, "precondition of "+key+": "+cj.Src)
			st.assume(cj.Term.S)
		}
	}
	// higher-order step: the callee runs a closure argument on a fresh object
	c.runInvokes(st, fc, sig, env, nil, pre, pos)
	c.runIterates(st, fc, sig, env, pkg, pre, pos, key)
	// havoc
	c.havocModifies(st, fc, sc, pre)
	// results
	var rs []Term
	for i := 0; i < sig.Results().Len(); i++ {
		rv := sig.Results().At(i)
		t := c.fresh(st, short+"_r", rv.Type())
		c.readFacts(st, t)
		rs = append(rs, t)
		env[fmt.Sprintf("result%d", i)] = t
		if rv.Name() != "" && rv.Name() != "_" {
			if _, clash := env[rv.Name()]; !clash {
				env[rv.Name()] = t
			}
		}
		if i == 0 {
			env["result"] = t
		}
	}
	sc2 := &SpecCtx{c: c, pkg: pkg, env: env, st: st, old: pre}
	c.applyGhostUpdates(st, fc, sc2)
	for _, en := range fc.Ensures {
		g := sc2.eval(en.E)
		st.assume(g.S)
	}
	for _, en := range fc.Trusts {
		g := sc2.eval(en.E)
		st.assume(g.S)
		c.e.trusted["unchecked postcondition (trusts) of "+shortFn(key)+": "+strings.TrimSpace(en.Src)] = true
	}
	if fc.Assumed {
		c.e.trusted["assumed contract: "+key] = true
	}
	return rs
}

// applyGhostUpdates performs the exit-time ghost assignments of a contract (history variables).
func (c *FnCtx) applyGhostUpdates(st *State, fc *FuncContract, sc *SpecCtx) {
	for _, u := range fc.GhostUpd {
		g := c.e.ghostVar(u.Target)
		if g == nil {
			panic(toolErr("ghost update of unknown ghost %s in %s", u.Target, fc.Key))
		}
		v := sc.eval(u.Val)
		if !sameSort(v.Sort, g.Sort) {
			panic(toolErr("ghost update %s in %s: sort %s, want %s", u.Target, fc.Key, v.Sort.SMT(), g.Sort.SMT()))
		}
		c.heapSet(st, "G:"+u.Target, Term{S: v.S, Sort: g.Sort})
	}
}

// havocModifies replaces the footprint named by the modifies clause with fresh values.
func (c *FnCtx) havocModifies(st *State, fc *FuncContract, sc *SpecCtx, pre *State) {
	for _, m := range fc.Modifies {
		c.havocDesignator(st, m, sc, pre)
	}
}

func (c *FnCtx) havocDesignator(st *State, m string, sc *SpecCtx, pre *State) {
	d := c.e.d
	if m == "alloc" {
		old := c.allocArr(st)
		n := c.freshSort("alloc", old.Sort)
		c.heapSet(st, "alloc", n)
		st.assume(fmt.Sprintf("(forall ((r V)) (! (=> (select %s r) (select %s r)) :pattern ((select %s r))))", old.S, n.S, n.S))
		return
	}
	if g := c.e.ghostVar(m); g != nil {
		c.heapSet(st, "G:"+m, c.freshSort("g_"+m, g.Sort))
		return
	}
	if strings.HasPrefix(m, "allmaps(") && strings.HasSuffix(m, ")") {
		// every map object of the static type of the expression
		mt := c.allmapsType(m, sc, pre)
		dom, val, dk, vk := c.mapArrs(st, mt)
		c.heapSet(st, dk, c.freshSort("mdall", dom.Sort))
		c.heapSet(st, vk, c.freshSort("mvall", val.Sort))
		return
	}
	if strings.HasSuffix(m, "[*]") {
		// contents of one map object
		e, err := parseSpec(strings.TrimSuffix(m, "[*]"))
		if err != nil {
			panic(toolErr("modifies %q: %v", m, err))
		}
		psc := *sc
		psc.st = pre
		mv := psc.eval(e)
		mt, ok := mv.T.Underlying().(*types.Map)
		if !ok {
			panic(toolErr("modifies %q: not a map", m))
		}
		dom, val, dk, vk := c.mapArrs(st, mt)
		nd := c.freshSort("mdom", dom.Sort.Elem)
		nv := c.freshSort("mval", val.Sort.Elem)
		c.heapSet(st, dk, Term{S: sSto(dom.S, mv.S, nd.S), Sort: dom.Sort})
		c.heapSet(st, vk, Term{S: sSto(val.S, mv.S, nv.S), Sort: val.Sort})
		return
	}
	e, err := parseSpec(m)
	if err != nil {
		panic(toolErr("modifies %q: %v", m, err))
	}
	f, ok := e.(*SField)
	if !ok {
		panic(toolErr("modifies %q: expected Type.field, expr.field, expr[*], ghost or alloc", m))
	}
	if n := sc.typeDesignator(f.X); n != nil {
		if fv := structField(n, f.Name); fv != nil {
			arr := c.fieldArr(st, n, fv)
			c.heapSet(st, fieldKey(n, f.Name), c.freshHeap(fieldKey(n, f.Name), arr.Sort))
			return
		}
		panic(toolErr("modifies %q: unknown field", m))
	}
	psc := *sc
	psc.st = pre
	base := psc.eval(f.X)
	n, stt, isPtr := derefNamedStruct(base.T)
	if n == nil || !isPtr {
		panic(toolErr("modifies %q: base is not a struct pointer", m))
	}
	for i := 0; i < stt.NumFields(); i++ {
		if stt.Field(i).Name() == f.Name {
			arr := c.fieldArr(st, n, stt.Field(i))
			v := c.freshSort("loc_"+f.Name, arr.Sort.Elem)
			c.heapSet(st, fieldKey(n, f.Name), Term{S: sSto(arr.S, base.S, v.S), Sort: arr.Sort})
			vt := Term{S: v.S, Sort: v.Sort, T: stt.Field(i).Type()}
			c.readFacts(st, vt)
			return
		}
	}
	_ = d
	panic(toolErr("modifies %q: no such field", m))
}

// inlineCall executes a straight-line callee body in place.
func (c *FnCtx) inlineCall(st *State, fi *FuncInfo, recv Term, args []Term, pos token.Pos) []Term {
	if c.inlineDepth > 6 {
		panic(unsup("inline depth exceeded at %s", fi.Key))
	}
	sub := &FnCtx{e: c.e, fi: fi, fc: c.e.contracts[fi.Key], info: fi.Pkg.TypesInfo, entry: c.entry, env: c.env, obls: c.obls,
		loopOrd: map[ast.Node]int{}, overflow: c.overflow, safety: c.safety, names: c.names, posName: c.posName, watch: c.watch,
		prefix: c.prefix + "inl(" + shortKey(fi.Key) + ")/", inlineDepth: c.inlineDepth + 1, labels: map[ast.Stmt]string{},
		lenientOuter: c.lenient(), escaping: map[types.Object]bool{}}
	if fi.Recv != nil {
		st.vars[fi.Recv] = recv
	}
	for i := 0; i < fi.Sig.Params().Len() && i < len(args); i++ {
		st.vars[fi.Sig.Params().At(i)] = args[i]
	}
	for i := 0; i < fi.Sig.Results().Len(); i++ {
		rv := fi.Sig.Results().At(i)
		if rv.Name() != "" {
			so := c.e.d.sortOf(rv.Type())
			st.vars[rv] = Term{S: c.e.d.zero(so), Sort: so, T: rv.Type()}
		}
	}
	savedDefers := st.defers
	st.defers = nil
	outs := sub.execBlock(st, fi.Body.List)
	var live []Outcome
	for _, o := range outs {
		if !o.st.dead {
			live = append(live, o)
		}
	}
	if len(live) != 1 {
		panic(unsup("inline callee %s has %d paths; give it a contract", fi.Key, len(live)))
	}
	o := live[0]
	if len(o.st.defers) > 0 {
		panic(unsup("inline callee %s defers", fi.Key))
	}
	// inlineCall mutates st in place: copy the outcome state back
	*st = *o.st
	st.defers = savedDefers
	if o.kind == oReturn {
		return o.res
	}
	return nil
}

func shortKey(k string) string {
	if i := strings.LastIndex(k, "/"); i >= 0 {
		k = k[i+1:]
	}
	return k
}

func (c *FnCtx) convert(st *State, v Term, to types.Type, pos token.Pos) Term {
	d := c.e.d
	so := d.sortOf(to)
	if sameSort(v.Sort, so) {
		if so.Kind == KInt {
			// integer conversion: value preserved iff in range
			if rg := intRange(to, v.S); rg != "true" {
				if c.overflow {
					c.oblige(st, "conv-range", typeShortName(to), pos, rg, "integer conversion preserves the value")
				} else if v.T != nil && intRange(v.T, v.S) != rg {
					c.e.trusted["integer conversions treated as value-preserving in "+c.fi.Key] = true
				}
			}
		}
		if so.Kind == KV {
			return c.coerce(st, v, to)
		}
		v.T = to
		return v
	}
	if so.Kind == KV {
		// e.g. string(bytes), []byte->string: opaque function of the argument
		fn := "conv." + sanitize(v.Sort.SMT()) + ".to." + typeShortName(to)
		if _, isIface := to.Underlying().(*types.Interface); isIface {
			return c.coerce(st, v, to)
		}
		d.declFun(fn, v.Sort.SMT(), "V")
		return Term{S: sApp(fn, v.S), Sort: sV, T: to}
	}
	if v.Sort.Kind == KV {
		fn := "conv.V.to." + sanitize(so.SMT())
		d.declFun(fn, "V", so.SMT())
		t := Term{S: sApp(fn, v.S), Sort: so, T: to}
		st.assume(c.typeFacts(t))
		return t
	}
	panic(unsup("conversion %s -> %v", v.Sort.SMT(), to))
}

func (c *FnCtx) builtin(st *State, name string, call *ast.CallExpr) []Term {
	d := c.e.d
	switch name {
	case "len":
		v := c.evalExpr(st, call.Args[0])
		it := types.Typ[types.Int]
		switch {
		case v.Sort.Kind == KSlice:
			return []Term{{S: sliceLen(v), Sort: sInt, T: it}}
		case v.T != nil:
			switch u := v.T.Underlying().(type) {
			case *types.Map:
				dom, _, _, _ := c.mapArrs(st, u)
				return []Term{{S: c.cardOf(dom.Sort.Elem, sSel(dom.S, v.S)), Sort: sInt, T: it}}
			case *types.Basic:
				d.declFun("strlen", "V", "Int")
				t := Term{S: sApp("strlen", v.S), Sort: sInt, T: it}
				st.assume("(>= " + t.S + " 0)")
				return []Term{t}
			case *types.Chan:
				t := c.fresh(st, "chanlen", it)
				st.assume("(>= " + t.S + " 0)")
				return []Term{t}
			}
		}
		panic(unsup("len of %v", v.T))
	case "copy":
		// copy(dst, src) returns min(len(dst), len(src)). The elements written into dst are modelled only when dst is
		// a plain slice variable or field; a slice of an array (u[:]) is a temporary view whose contents are not tracked.
		dst := c.evalExpr(st, call.Args[0])
		src := c.evalExpr(st, call.Args[1])
		if dst.Sort.Kind != KSlice {
			panic(unsup("copy into %v", dst.T))
		}
		srcLen := ""
		switch {
		case src.Sort.Kind == KSlice:
			srcLen = sliceLen(src)
		default:
			d.declFun("strlen", "V", "Int")
			srcLen = sApp("strlen", src.S)
			st.assume("(>= " + srcLen + " 0)")
		}
		n := sIte("(<= "+sliceLen(dst)+" "+srcLen+")", sliceLen(dst), srcLen)
		c.e.trusted["copy(): the number of elements copied is modelled, the copied contents are not, in "+shortFn(c.fi.Key)] = true
		if _, isSliceExpr := ast.Unparen(call.Args[0]).(*ast.SliceExpr); !isSliceExpr {
			// contents of the destination become unknown (same length)
			fresh := c.fresh(st, "copied", dst.T)
			st.assume(sEq(sliceLen(fresh), sliceLen(dst)))
			c.assignTo(st, call.Args[0], fresh, call.Pos())
		}
		return []Term{{S: n, Sort: sInt, T: types.Typ[types.Int]}}
	case "cap":
		v := c.evalExpr(st, call.Args[0])
		t := c.fresh(st, "cap", types.Typ[types.Int])
		if v.Sort.Kind == KSlice {
			st.assume("(>= " + t.S + " " + sliceLen(v) + ")")
		}
		return []Term{t}
	case "append":
		s := c.evalExpr(st, call.Args[0])
		rt := c.typeOf(call)
		if s.Sort.Kind != KSlice {
			s = c.coerce(st, s, rt)
		}
		if call.Ellipsis != token.NoPos {
			o := c.evalExpr(st, call.Args[1])
			if o.Sort.Kind != KSlice {
				panic(unsup("append(s, x...) with non-slice"))
			}
			// concatenation: result is a fresh slice with the right length and element facts
			r := c.fresh(st, "concat", rt)
			st.assume(sEq(sliceLen(r), "(+ "+sliceLen(s)+" "+sliceLen(o)+")"))
			st.assume(fmt.Sprintf("(forall ((i Int)) (! (=> (and (<= 0 i) (< i %s)) (= %s %s)) :pattern (%s)))", sliceLen(s), sliceAt(r, "i"), sliceAt(s, "i"), sliceAt(r, "i")))
			st.assume(fmt.Sprintf("(forall ((i Int)) (! (=> (and (<= 0 i) (< i %s)) (= %s %s)) :pattern (%s)))", sliceLen(o), sliceAt(r, "(+ "+sliceLen(s)+" i)"), sliceAt(o, "i"), sliceAt(o, "i")))
			return []Term{r}
		}
		cur := s
		et := rt.Underlying().(*types.Slice).Elem()
		for _, a := range call.Args[1:] {
			v := c.coerce(st, c.evalExpr(st, a), et)
			cur = Term{S: sliceAppend(cur, v.S), Sort: s.Sort, T: rt}
		}
		return []Term{cur}
	case "make":
		t := c.typeOf(call.Args[0])
		switch u := t.Underlying().(type) {
		case *types.Map:
			r := c.newRef(st, "map")
			m := Term{S: r, Sort: sV, T: t}
			c.tagRef(st, m)
			c.mapInit(st, m, u)
			return []Term{m}
		case *types.Chan:
			r := c.newRef(st, "chan")
			ch := Term{S: r, Sort: sV, T: t}
			c.runOnMake(st, ch, u, call)
			return []Term{ch}
		case *types.Slice:
			so := d.sortOf(t)
			n := "0"
			if len(call.Args) > 1 {
				n = c.evalExpr(st, call.Args[1]).S
			}
			if c.safety && n != "0" {
				c.oblige(st, "make-len", "", call.Pos(), "(>= "+n+" 0)", "make length non-negative")
			}
			return []Term{{S: fmt.Sprintf("(%s ((as const (Array Int %s)) %s) 0 %s)", so.ctor(), so.Elem.SMT(), d.zero(so.Elem), n), Sort: so, T: t}}
		}
		panic(unsup("make of %v", t))
	case "new":
		t := c.typeOf(call.Args[0])
		n, stt, _ := derefNamedStruct(t)
		r := c.newRef(st, "new")
		ref := Term{S: r, Sort: sV, T: types.NewPointer(t)}
		c.tagRef(st, ref)
		if n != nil && c.e.d.modelled(n) {
			for i := 0; i < stt.NumFields(); i++ {
				f := stt.Field(i)
				if c.e.isInlineObj(n, f) {
					c.writeStructTo(st, c.inlineRef(st, n, f, ref), Term{S: d.zero(d.sortOf(f.Type())), Sort: d.sortOf(f.Type()), T: f.Type()}, call.Pos(), true)
					continue
				}
				so := d.sortOf(f.Type())
				c.writeField(st, ref, n, f, Term{S: d.zero(so), Sort: so, T: f.Type()}, call.Pos(), true)
			}
		}
		return []Term{ref}
	case "delete":
		m := c.evalExpr(st, call.Args[0])
		mt := m.T.Underlying().(*types.Map)
		k := c.coerce(st, c.evalExpr(st, call.Args[1]), mt.Key())
		c.mapDelete(st, m, mt, k)
		return nil
	case "close":
		ch := c.evalExpr(st, call.Args[0])
		c.chanEvent(st, "close", ch, Term{}, call.Pos())
		return nil
	case "panic":
		if c.safety && !c.hasEffect("may_panic") {
			c.oblige(st, "explicit-panic", "", call.Pos(), "false", "explicit panic() is unreachable")
		}
		st.dead = true
		return nil
	case "min", "max":
		a := c.evalExpr(st, call.Args[0])
		for _, x := range call.Args[1:] {
			b := c.evalExpr(st, x)
			op := "<="
			if name == "max" {
				op = ">="
			}
			a = Term{S: sIte("("+op+" "+a.S+" "+b.S+")", a.S, b.S), Sort: sInt, T: c.typeOf(call)}
		}
		return []Term{a}
	case "recover":
		t := c.fresh(st, "recovered", c.typeOf(call))
		return []Term{t}
	}
	panic(unsup("builtin %s", name))
}

func (c *FnCtx) hasEffect(e string) bool {
	if c.fc == nil {
		return false
	}
	for _, x := range c.fc.Effects {
		if x == e {
			return true
		}
	}
	return false
}

// ---- channels ----

func chanElem(t types.Type) types.Type {
	if ch, ok := t.Underlying().(*types.Chan); ok {
		return ch.Elem()
	}
	return nil
}

func (c *FnCtx) matchOnSend(elem types.Type, kind string) []*OnSend {
	var out []*OnSend
	name := types.TypeString(elem, func(p *types.Package) string { return p.Name() })
	for _, os := range c.e.onsends {
		want := os.Elem
		k := "send"
		if i := strings.Index(want, ":"); i >= 0 {
			k = want[:i]
			want = want[i+1:]
		}
		if os.OnlyFn != "" && !strings.HasSuffix(c.baseKey(), "."+os.OnlyFn) {
			continue
		}
		if k == kind && want == name && (os.DefPkg == "" || os.DefPkg == c.fi.Pkg.PkgPath) {
			out = append(out, os)
		}
	}
	return out
}

func (c *FnCtx) chanEvent(st *State, kind string, ch Term, v Term, pos token.Pos) {
	el := chanElem(ch.T)
	if el == nil {
		return
	}
	hooks := c.matchOnSend(el, kind)
	if len(hooks) == 0 {
		c.e.trusted["channel "+kind+" on chan "+typeShortName(el)+" abstracted (no ghost event declared)"] = true
	}
	for _, os := range hooks {
		env := map[string]Term{os.Ch: ch}
		if v.Sort != nil {
			env[os.Val] = v
		}
		sc := &SpecCtx{c: c, pkg: c.fi.Pkg, env: env, st: st, old: c.entry}
		for i, r := range os.Requires {
			g := sc.eval(r.E)
			if r.Inv {
				st.assume(g.S) // `assume`: a guard of the event, not an obligation
				continue
			}
			c.oblige(st, "chan-"+kind, fmt.Sprintf("requires%d", i+1), pos, g.S, "channel "+kind+" protocol: "+r.Src)
			st.assume(g.S)
		}
		for _, up := range os.Updates {
			g := c.e.ghostVar(up.Target)
			if g == nil {
				panic(toolErr("onsend: unknown ghost %s", up.Target))
			}
			val := sc.eval(up.Val)
			c.heapSet(st, "G:"+up.Target, Term{S: val.S, Sort: g.Sort})
		}
	}
}

func (c *FnCtx) runOnMake(st *State, ch Term, ct *types.Chan, call *ast.CallExpr) {
	hooks := c.matchOnSend(ct.Elem(), "make")
	for _, os := range hooks {
		env := map[string]Term{os.Ch: ch}
		if len(call.Args) > 1 {
			env[os.Val] = c.evalExpr(st, call.Args[1])
		} else {
			env[os.Val] = Term{S: "0", Sort: sInt}
		}
		sc := &SpecCtx{c: c, pkg: c.fi.Pkg, env: env, st: st, old: c.entry}
		for _, r := range os.Requires {
			st.assume(sc.eval(r.E).S) // facts about a fresh channel
		}
		for _, up := range os.Updates {
			g := c.e.ghostVar(up.Target)
			val := sc.eval(up.Val)
			c.heapSet(st, "G:"+up.Target, Term{S: val.S, Sort: g.Sort})
		}
	}
}

func (c *FnCtx) recv(st *State, chExpr ast.Expr, pos token.Pos) []Term {
	ch := c.evalExpr(st, chExpr)
	el := chanElem(ch.T)
	v := c.fresh(st, "recv", el)
	c.readFacts(st, v)
	ok := c.fresh(st, "recvok", types.Typ[types.Bool])
	c.chanEvent(st, "recv", ch, v, pos)
	return []Term{v, ok}
}
