package main

import (
	"os"
	"fmt"
	"go/ast"
	"go/token"
	"go/types"
	"sort"
	"strings"
)

func (c *FnCtx) execBlock(st *State, list []ast.Stmt) []Outcome {
	cur := []*State{st}
	var outs []Outcome
	for _, s := range list {
		var next []*State
		for _, cs := range cur {
			if cs.dead {
				continue
			}
			for _, o := range c.execStmt(cs, s) {
				if o.st.dead {
					continue
				}
				if o.kind == oNext {
					next = append(next, o.st)
				} else {
					outs = append(outs, o)
				}
			}
		}
		cur = next
		c.paths = len(cur) + len(outs)
		if c.paths > maxPaths {
			panic(unsup("path limit exceeded in %s", c.fi.Key))
		}
	}
	for _, cs := range cur {
		if !cs.dead {
			outs = append(outs, Outcome{st: cs, kind: oNext})
		}
	}
	return outs
}

func one(st *State) []Outcome { return []Outcome{{st: st, kind: oNext}} }

func (c *FnCtx) execStmt(st *State, s ast.Stmt) []Outcome {
	switch x := s.(type) {
	case *ast.EmptyStmt:
		return one(st)
	case *ast.BlockStmt:
		return c.execBlock(st, x.List)
	case *ast.ExprStmt:
		switch e := ast.Unparen(x.X).(type) {
		case *ast.CallExpr:
			c.evalCall(st, e)
		case *ast.UnaryExpr:
			c.evalExpr(st, e)
		default:
			panic(unsup("expression statement %T", x.X))
		}
		return one(st)
	case *ast.DeclStmt:
		gd, ok := x.Decl.(*ast.GenDecl)
		if !ok || gd.Tok != token.VAR {
			if gd != nil && (gd.Tok == token.CONST || gd.Tok == token.TYPE) {
				return one(st)
			}
			panic(unsup("declaration statement"))
		}
		for _, sp := range gd.Specs {
			vs := sp.(*ast.ValueSpec)
			if len(vs.Values) == 1 && len(vs.Names) > 1 {
				rs := c.evalMulti(st, vs.Values[0], len(vs.Names))
				for i, nm := range vs.Names {
					if obj := c.info.Defs[nm]; obj != nil {
						st.vars[obj] = c.coerce(st, rs[i], obj.Type())
					}
				}
				continue
			}
			for i, nm := range vs.Names {
				obj := c.info.Defs[nm]
				if obj == nil {
					continue
				}
				if i < len(vs.Values) {
					if ov, ok := obj.(*types.Var); ok {
						c.bindLocal(st, ov, c.coerce(st, c.evalExpr(st, vs.Values[i]), obj.Type()), nm.Pos())
					} else {
						st.vars[obj] = c.coerce(st, c.evalExpr(st, vs.Values[i]), obj.Type())
					}
				} else {
					so := c.e.d.sortOf(obj.Type())
					if ov, ok := obj.(*types.Var); ok {
						c.bindLocal(st, ov, Term{S: c.e.d.zero(so), Sort: so, T: obj.Type()}, nm.Pos())
					} else {
						st.vars[obj] = Term{S: c.e.d.zero(so), Sort: so, T: obj.Type()}
					}
				}
			}
		}
		return one(st)
	case *ast.AssignStmt:
		c.execAssign(st, x)
		return one(st)
	case *ast.IncDecStmt:
		v := c.evalExpr(st, x.X)
		op := token.ADD
		if x.Tok == token.DEC {
			op = token.SUB
		}
		nv := c.arith(st, op, v, Term{S: "1", Sort: sInt}, c.typeOf(x.X), x.Pos())
		c.assignTo(st, x.X, nv, x.Pos())
		return one(st)
	case *ast.IfStmt:
		if x.Init != nil {
			outs := c.execStmt(st, x.Init)
			if len(outs) != 1 || outs[0].kind != oNext {
				panic(unsup("if-init with control flow"))
			}
			st = outs[0].st
		}
		cond := c.evalExpr(st, x.Cond)
		var outs []Outcome
		thenSt := st.clone()
		thenSt.assume(cond.S)
		outs = append(outs, c.execBlock(thenSt, x.Body.List)...)
		elseSt := st
		elseSt.assume(sNot(cond.S))
		if x.Else != nil {
			outs = append(outs, c.execStmt(elseSt, x.Else)...)
		} else {
			outs = append(outs, Outcome{st: elseSt, kind: oNext})
		}
		return outs
	case *ast.ReturnStmt:
		return c.execReturn(st, x)
	case *ast.BranchStmt:
		lbl := ""
		if x.Label != nil {
			lbl = x.Label.Name
		}
		switch x.Tok {
		case token.BREAK:
			return []Outcome{{st: st, kind: oBreak, label: lbl}}
		case token.CONTINUE:
			return []Outcome{{st: st, kind: oContinue, label: lbl}}
		}
		panic(unsup("%s statement", x.Tok))
	case *ast.LabeledStmt:
		c.labels[x.Stmt] = x.Label.Name
		return c.execStmt(st, x.Stmt)
	case *ast.ForStmt:
		return c.execFor(st, x)
	case *ast.RangeStmt:
		return c.execRange(st, x)
	case *ast.SwitchStmt:
		return c.execSwitch(st, x)
	case *ast.TypeSwitchStmt:
		return c.execTypeSwitch(st, x)
	case *ast.DeferStmt:
		return c.execDefer(st, x)
	case *ast.SendStmt:
		ch := c.evalExpr(st, x.Chan)
		v := c.coerce(st, c.evalExpr(st, x.Value), chanElem(ch.T))
		c.chanEvent(st, "send", ch, v, x.Pos())
		return one(st)
	case *ast.GoStmt:
		return c.execGo(st, x)
	case *ast.SelectStmt:
		return c.execSelect(st, x)
	}
	panic(unsup("statement %T at %s", s, c.pos(s.Pos())))
}

// evalMulti evaluates an expression that yields n values (call, map index, type assertion, receive).
func (c *FnCtx) evalMulti(st *State, e ast.Expr, n int) []Term {
	e = ast.Unparen(e)
	switch x := e.(type) {
	case *ast.CallExpr:
		rs := c.evalCall(st, x)
		if len(rs) != n {
			panic(unsup("call yields %d values, want %d", len(rs), n))
		}
		return rs
	case *ast.IndexExpr:
		if mt, ok := c.typeOf(x.X).Underlying().(*types.Map); ok && n == 2 {
			m := c.evalExpr(st, x.X)
			k := c.coerce(st, c.evalExpr(st, x.Index), mt.Key())
			v, ok := c.mapRead(st, m, mt, k)
			return []Term{v, ok}
		}
	case *ast.TypeAssertExpr:
		if n == 2 {
			v := c.evalExpr(st, x.X)
			to := c.typeOf(x.Type)
			d := c.e.d
			d.declFun("dyntype", "V", "Int")
			var okS string
			if _, isIface := to.Underlying().(*types.Interface); isIface {
				okS = sAnd(c.implementsTerm(v, to), sNot(sEq(v.S, "nilV")))
			} else {
				okS = sAnd(sNot(sEq(v.S, "nilV")), sEq(sApp("dyntype", v.S), fmt.Sprint(d.typeTag(to))))
			}
			so := d.sortOf(to)
			ub := c.unbox(v, to)
			val := Term{S: sIte(okS, ub.S, d.zero(so)), Sort: so, T: to}
			return []Term{val, {S: okS, Sort: sBool, T: types.Typ[types.Bool]}}
		}
	case *ast.UnaryExpr:
		if x.Op == token.ARROW && n == 2 {
			return c.recv(st, x.X, x.Pos())
		}
	}
	panic(unsup("multi-value expression %T", e))
}

func (c *FnCtx) execAssign(st *State, x *ast.AssignStmt) {
	if x.Tok != token.ASSIGN && x.Tok != token.DEFINE {
		// op-assign
		var op token.Token
		switch x.Tok {
		case token.ADD_ASSIGN:
			op = token.ADD
		case token.SUB_ASSIGN:
			op = token.SUB
		case token.MUL_ASSIGN:
			op = token.MUL
		case token.QUO_ASSIGN:
			op = token.QUO
		case token.REM_ASSIGN:
			op = token.REM
		default:
			panic(unsup("assignment operator %s", x.Tok))
		}
		l := c.evalExpr(st, x.Lhs[0])
		r := c.evalExpr(st, x.Rhs[0])
		if l.Sort.Kind != KInt {
			panic(unsup("op-assign on non-integer"))
		}
		nv := c.arith(st, op, l, r, c.typeOf(x.Lhs[0]), x.Pos())
		c.assignTo(st, x.Lhs[0], nv, x.Pos())
		return
	}
	var vals []Term
	if len(x.Lhs) > 1 && len(x.Rhs) == 1 {
		vals = c.evalMulti(st, x.Rhs[0], len(x.Lhs))
	} else {
		for _, r := range x.Rhs {
			vals = append(vals, c.evalExpr(st, r))
		}
	}
	for i, l := range x.Lhs {
		c.assignTo(st, l, vals[i], x.Pos())
	}
}

func (c *FnCtx) assignTo(st *State, l ast.Expr, v Term, pos token.Pos) {
	l = ast.Unparen(l)
	switch y := l.(type) {
	case *ast.Ident:
		if y.Name == "_" {
			return
		}
		obj := c.info.ObjectOf(y)
		vv, ok := obj.(*types.Var)
		if !ok {
			panic(unsup("assignment to %s", y.Name))
		}
		v = c.coerce(st, v, vv.Type())
		if vv.Pkg() != nil && vv.Parent() == vv.Pkg().Scope() {
			c.heapSet(st, "PV:"+vv.Pkg().Path()+"."+vv.Name(), Term{S: v.S, Sort: v.Sort})
			return
		}
		c.bindLocal(st, vv, v, pos)
	case *ast.SelectorExpr:
		sel, ok := c.info.Selections[y]
		if !ok || sel.Kind() != types.FieldVal {
			if vv, ok := c.info.Uses[y.Sel].(*types.Var); ok {
				v = c.coerce(st, v, vv.Type())
				c.heapSet(st, "PV:"+vv.Pkg().Path()+"."+vv.Name(), Term{S: v.S, Sort: v.Sort})
				return
			}
			panic(unsup("assignment to selector"))
		}
		idx := sel.Index()
		base := c.evalExpr(st, y.X)
		root := base
		if len(idx) > 1 {
			base = c.selectPath(st, base, idx[:len(idx)-1], y.Pos())
		}
		n, stt, isPtr := derefNamedStruct(base.T)
		if n == nil {
			panic(unsup("field assignment on %v", base.T))
		}
		f := stt.Field(idx[len(idx)-1])
		v = c.coerce(st, v, f.Type())
		if isPtr && c.e.isInlineObj(n, f) {
			// o.f = T{...} on an inline-object field: overwrite the sub-object's fields
			c.nilCheck(st, base, y.Pos(), f.Name())
			c.writeStructTo(st, c.inlineRef(st, n, f, base), v, pos, false)
			return
		}
		if isPtr {
			c.nilCheck(st, base, y.Pos(), f.Name())
			c.writeField(st, base, n, f, v, pos, false)
			return
		}
		// struct value: rebuild and assign to the base lvalue
		if base.Sort.Kind != KStruct {
			if c.lenient() {
				// a field of an opaque (dependency) struct value held in a local: the value becomes unknown
				if base.T != nil {
					c.e.trusted["lenient: field "+f.Name()+" of an opaque struct value assigned in "+shortFn(c.fi.Key)+" (the struct value becomes unknown)"] = true
					c.assignTo(st, y.X, c.fresh(st, "opaque", base.T), pos)
					return
				}
			}
			panic(unsup("field assignment on opaque struct"))
		}
		var parts []string
		for i, fi := range base.Sort.Fields {
			if i == idx[len(idx)-1] {
				parts = append(parts, v.S)
			} else {
				parts = append(parts, sApp(base.Sort.sel(fi.Name), base.S))
			}
		}
		nv := Term{S: sApp(base.Sort.ctor(), parts...), Sort: base.Sort, T: base.T}
		if len(idx) > 1 {
			c.storeNestedValue(st, root, y.X, idx[:len(idx)-1], nv, pos)
			return
		}
		c.assignTo(st, y.X, nv, pos)
	case *ast.IndexExpr:
		bt := c.typeOf(y.X)
		switch u := bt.Underlying().(type) {
		case *types.Map:
			m := c.evalExpr(st, y.X)
			k := c.coerce(st, c.evalExpr(st, y.Index), u.Key())
			c.mapWrite(st, m, u, k, c.coerce(st, v, u.Elem()), y.Pos())
		case *types.Slice:
			s := c.evalExpr(st, y.X)
			i := c.evalExpr(st, y.Index)
			c.boundsCheck(st, s, i.S, y.Pos())
			n := s.Sort.Name
			v = c.coerce(st, v, u.Elem())
			ns := Term{S: fmt.Sprintf("(%s (store (%s.arr %s) (+ (%s.off %s) %s) %s) (%s.off %s) (%s.len %s))", s.Sort.ctor(), n, s.S, n, s.S, i.S, v.S, n, s.S, n, s.S), Sort: s.Sort, T: s.T}
			c.e.trusted["slice element writes do not alias other slices (backing arrays not shared) in "+c.fi.Key] = true
			c.assignTo(st, y.X, ns, pos)
		default:
			panic(unsup("index assignment on %v", bt))
		}
	case *ast.StarExpr:
		p := c.evalExpr(st, y.X)
		n, stt, isPtr := derefNamedStruct(p.T)
		if n != nil && isPtr {
			c.nilCheck(st, p, y.Pos(), "*")
			if v.Sort.Kind != KStruct {
				panic(unsup("*p = opaque struct"))
			}
			for i := 0; i < stt.NumFields(); i++ {
				f := stt.Field(i)
				c.writeField(st, p, n, f, Term{S: sApp(v.Sort.sel(f.Name()), v.S), Sort: v.Sort.Fields[i].Sort, T: f.Type()}, pos, false)
			}
			return
		}
		if pt, ok := p.T.Underlying().(*types.Pointer); ok {
			c.nilCheck(st, p, y.Pos(), "*")
			key := "P:" + typeShortName(pt.Elem())
			arr := c.heapGet(st, key, arraySort(sV, c.e.d.sortOf(pt.Elem())))
			v = c.coerce(st, v, pt.Elem())
			c.heapSet(st, key, Term{S: sSto(arr.S, p.S, v.S), Sort: arr.Sort})
			return
		}
		panic(unsup("assignment through %v", p.T))
	default:
		panic(unsup("assignment target %T", l))
	}
}

func (c *FnCtx) execReturn(st *State, x *ast.ReturnStmt) []Outcome {
	sig := c.fi.Sig
	var res []Term
	if len(x.Results) == 0 && sig.Results().Len() > 0 {
		// naked return with named results
		for i := 0; i < sig.Results().Len(); i++ {
			res = append(res, st.vars[sig.Results().At(i)])
		}
	} else if len(x.Results) == 1 && sig.Results().Len() > 1 {
		res = c.evalMulti(st, x.Results[0], sig.Results().Len())
		for i := range res {
			res[i] = c.coerce(st, res[i], sig.Results().At(i).Type())
		}
	} else {
		for i, r := range x.Results {
			res = append(res, c.coerce(st, c.evalExpr(st, r), sig.Results().At(i).Type()))
		}
	}
	// named results are assigned (visible to defers)
	for i := 0; i < sig.Results().Len() && i < len(res); i++ {
		if rv := sig.Results().At(i); rv.Name() != "" && rv.Name() != "_" {
			st.vars[rv] = res[i]
		}
	}
	return []Outcome{{st: st, kind: oReturn, res: res, ret: x}}
}

// ---- loops ----

type modSet struct {
	vars map[types.Object]bool
	heap map[string]*Sort
	alloc bool
}

func (c *FnCtx) loopInvariants(n ast.Node) (int, []Clause) {
	ord := c.loopOrd[n]
	if c.fc == nil {
		return ord, nil
	}
	return ord, c.fc.LoopInv[ord]
}

func (c *FnCtx) specCtx(st *State) *SpecCtx {
	env := copyEnv(c.env)
	// locals visible by name (innermost wins is not tracked: names are assumed unique enough)
	for obj, t := range st.vars {
		if t.Cell {
			// address-taken local: specs see its current value
			if pt, ok := t.T.Underlying().(*types.Pointer); ok {
				arr := c.heapGet(st, "P:"+typeShortName(pt.Elem()), arraySort(sV, c.e.d.sortOf(pt.Elem())))
				t = Term{S: sSel(arr.S, t.S), Sort: arr.Sort.Elem, T: pt.Elem()}
			}
		}
		if _, clash := env[obj.Name()]; !clash {
			env[obj.Name()] = t
		} else if v, ok := obj.(*types.Var); ok && c.captured[v] {
			env[obj.Name()] = t
		}
	}
	return &SpecCtx{c: c, pkg: c.fi.Pkg, pos: c.fi.Body.Pos(), env: env, st: st, old: c.entry}
}

func (c *FnCtx) specCtxWith(st *State, extra map[string]Term) *SpecCtx {
	sc := c.specCtx(st)
	for k, v := range extra {
		sc.env[k] = v
	}
	return sc
}

func (c *FnCtx) checkInvariant(st *State, invs []Clause, ord int, phase string, pos token.Pos, extra map[string]Term) {
	sc := c.specCtxWith(st, extra)
	for i, inv := range invs {
		if c.invUnknownName(sc, inv) {
			continue
		}
		for _, cj := range sc.evalConjuncts(inv.E, "") {
			c.oblige(st, "loop-inv-"+phase, fmt.Sprintf("loop%d/inv%d%s", ord, i+1, cj.Path), pos, cj.Term.S, fmt.Sprintf("loop %d invariant %s: %s", ord, phase, cj.Src))
		}
	}
}

// invUnknownName: the invariant clause mentions a name that does not exist (any more) in the function - typically a
// local that a code change removed or renamed. An invariant only HELPS the proof, so such a clause is dropped (the
// loop is then cut with less knowledge: what depended on it fails as an ordinary obligation of the function, instead
// of the whole function becoming undecidable) and the fact is listed.
func (c *FnCtx) invUnknownName(sc *SpecCtx, inv Clause) (unknown bool) {
	defer func() {
		if r := recover(); r != nil {
			if te, ok := r.(toolError); ok && strings.Contains(string(te), "unknown identifier") {
				c.e.trusted["loop invariant clause dropped in "+shortFn(c.fi.Key)+": "+string(te)+" ("+strings.TrimSpace(inv.Src)+")"] = true
				unknown = true
				return
			}
			panic(r)
		}
	}()
	probe := *sc
	probe.st = sc.st.clone()
	probe.eval(inv.E)
	return false
}

func (c *FnCtx) assumeInvariant(st *State, invs []Clause, extra map[string]Term) {
	sc := c.specCtxWith(st, extra)
	for _, inv := range invs {
		if c.invUnknownName(sc, inv) {
			continue
		}
		st.assume(sc.eval(inv.E).S)
	}
}

func (c *FnCtx) havocLoop(st *State, body ast.Node, extraVars ...types.Object) {
	ms := &modSet{vars: map[types.Object]bool{}, heap: map[string]*Sort{}}
	c.collectMods(body, ms, c.info, 0)
	for _, v := range extraVars {
		ms.vars[v] = true
	}
	var objs []types.Object
	for o := range ms.vars {
		if _, ok := st.vars[o]; ok {
			objs = append(objs, o)
		}
	}
	sort.Slice(objs, func(i, j int) bool { return objs[i].Pos() < objs[j].Pos() })
	for _, o := range objs {
		t := c.fresh(st, o.Name(), o.Type())
		c.readFacts(st, t)
		st.vars[o] = t
	}
	var keys []string
	for k := range ms.heap {
		keys = append(keys, k)
	}
	sort.Strings(keys)
	for _, k := range keys {
		c.heapSet(st, k, c.freshHeap(k, ms.heap[k]))
	}
	if ms.alloc {
		c.havocDesignator(st, "alloc", nil, nil)
	}
}

func (c *FnCtx) execFor(st *State, x *ast.ForStmt) []Outcome {
	if x.Init != nil {
		outs := c.execStmt(st, x.Init)
		st = outs[0].st
	}
	ord, invs := c.loopInvariants(x)
	label := c.labels[x]
	if c.fc != nil && len(invs) == 0 {
		c.e.trusted[fmt.Sprintf("loop %d of %s has no invariant (havoc only)", ord, c.fi.Key)] = true
	}
	c.checkInvariant(st, invs, ord, "entry", x.Pos(), nil)
	c.loopFrame(st, "entry", ord, x.Pos())
	c.havocLoop(st, x)
	c.loopFrame(st, "assume", ord, x.Pos())
	c.assumeInvariant(st, invs, nil)
	var outs []Outcome
	// exit branch
	exitSt := st.clone()
	bodySt := st
	if x.Cond != nil {
		cond := c.evalExpr(bodySt, x.Cond)
		// evaluating the condition may have added facts (and effects) — mirror on exit state
		exitSt = bodySt.clone()
		exitSt.assume(sNot(cond.S))
		bodySt.assume(cond.S)
		c.checkLoopExit(exitSt, ord, x.Pos())
		outs = append(outs, Outcome{st: exitSt, kind: oNext})
	}
	for _, o := range c.execBlock(bodySt, x.Body.List) {
		switch {
		case o.kind == oBreak && (o.label == "" || o.label == label):
			c.checkLoopExit(o.st, ord, x.Pos())
			outs = append(outs, Outcome{st: o.st, kind: oNext})
		case (o.kind == oNext) || (o.kind == oContinue && (o.label == "" || o.label == label)):
			s2 := o.st
			if x.Post != nil {
				po := c.execStmt(s2, x.Post)
				s2 = po[0].st
			}
			c.checkInvariant(s2, invs, ord, "preserved", x.Pos(), nil)
			c.loopFrame(s2, "preserved", ord, x.Pos())
		default:
			outs = append(outs, o)
		}
	}
	return outs
}

func (c *FnCtx) execRange(st *State, x *ast.RangeStmt) []Outcome {
	ord, invs := c.loopInvariants(x)
	label := c.labels[x]
	if c.fc != nil && len(invs) == 0 {
		c.e.trusted[fmt.Sprintf("loop %d of %s has no invariant (havoc only)", ord, c.fi.Key)] = true
	}
	xt := c.typeOf(x.X)
	idxName := fmt.Sprintf("idx%d", ord)
	it := types.Typ[types.Int]
	var keyObj, valObj types.Object
	if id, ok := x.Key.(*ast.Ident); ok && id.Name != "_" {
		keyObj = c.info.ObjectOf(id)
	}
	if id, ok := x.Value.(*ast.Ident); ok && id.Name != "_" {
		valObj = c.info.ObjectOf(id)
	}
	if (x.Key != nil && keyObj == nil && !isBlank(x.Key)) || (x.Value != nil && valObj == nil && !isBlank(x.Value)) {
		panic(unsup("range with non-identifier targets"))
	}
	switch u := xt.Underlying().(type) {
	case *types.Slice, *types.Basic:
		var seq Term
		var lenS string
		isInt := false
		if b, ok := u.(*types.Basic); ok {
			if b.Info()&types.IsInteger == 0 {
				panic(unsup("range over %v", xt))
			}
			isInt = true
			lenS = c.evalExpr(st, x.X).S
		} else {
			seq = c.evalExpr(st, x.X)
			lenS = sliceLen(seq)
		}
		zero := Term{S: "0", Sort: sInt, T: it}
		c.checkInvariant(st, invs, ord, "entry", x.Pos(), map[string]Term{idxName: zero})
		c.loopFrame(st, "entry", ord, x.Pos())
		c.havocLoop(st, x.Body)
		c.loopFrame(st, "assume", ord, x.Pos())
		idx := c.fresh(st, idxName, it)
		extra := map[string]Term{idxName: idx}
		// the hidden index is visible by name (idxN) to `use` hints evaluated inside the body
		if c.loopIdxVar == nil {
			c.loopIdxVar = map[ast.Node]*types.Var{}
		}
		iv := c.loopIdxVar[x]
		if iv == nil {
			iv = types.NewVar(x.Pos(), c.fi.Pkg.Types, idxName, it)
			c.loopIdxVar[x] = iv
		}
		st.vars[iv] = idx
		exitIdxVar := iv
		_ = exitIdxVar
		st.assume("(<= 0 " + idx.S + ")")
		st.assume("(<= " + idx.S + " " + lenS + ")")
		c.assumeInvariant(st, invs, extra)
		exitSt := st.clone()
		exitSt.assume(sEq(idx.S, lenS))
		outs := []Outcome{{st: exitSt, kind: oNext}}
		st.assume("(< " + idx.S + " " + lenS + ")")
		if keyObj != nil {
			st.vars[keyObj] = Term{S: idx.S, Sort: sInt, T: keyObj.Type()}
		}
		if valObj != nil && !isInt {
			v := Term{S: sliceAt(seq, idx.S), Sort: seq.Sort.Elem, T: valObj.Type()}
			c.readFacts(st, v)
			st.vars[valObj] = v
		}
		for _, o := range c.execBlock(st, x.Body.List) {
			switch {
			case o.kind == oBreak && (o.label == "" || o.label == label):
				outs = append(outs, Outcome{st: o.st, kind: oNext})
			case (o.kind == oNext) || (o.kind == oContinue && (o.label == "" || o.label == label)):
				next := Term{S: "(+ " + idx.S + " 1)", Sort: sInt, T: it}
				c.checkInvariant(o.st, invs, ord, "preserved", x.Pos(), map[string]Term{idxName: next})
				c.loopFrame(o.st, "preserved", ord, x.Pos())
			default:
				outs = append(outs, o)
			}
		}
		return outs
	case *types.Map:
		// iteration over the domain at loop entry; seen-set as ghost
		m := c.evalExpr(st, x.X)
		dom0, _, _, _ := c.mapArrs(st, u)
		domAtEntry := sSel(dom0.S, m.S)
		ks := c.e.d.sortOf(u.Key())
		setSort := arraySort(ks, sBool)
		seenName := fmt.Sprintf("seen%d", ord)
		empty := Term{S: c.e.d.zero(setSort), Sort: setSort}
		dom0T := Term{S: domAtEntry, Sort: setSort}
		domName := fmt.Sprintf("dom%d", ord)
		c.checkInvariant(st, invs, ord, "entry", x.Pos(), map[string]Term{seenName: empty, domName: dom0T})
		c.loopFrame(st, "entry", ord, x.Pos())
		c.havocLoop(st, x.Body)
		c.loopFrame(st, "assume", ord, x.Pos())
		seen := c.freshSort(seenName, setSort)
		extra := map[string]Term{seenName: seen, domName: dom0T}
		// visible by name (seenN / domN) to nested loops' invariants and to hints inside the body
		if c.loopGhostVars == nil {
			c.loopGhostVars = map[string]*types.Var{}
		}
		for nm, tm := range extra {
			gv := c.loopGhostVars[nm]
			if gv == nil {
				gv = types.NewVar(x.Pos(), c.fi.Pkg.Types, nm, types.Typ[types.Invalid])
				c.loopGhostVars[nm] = gv
			}
			st.vars[gv] = tm
		}
		// seen ⊆ dom0
		st.assume(fmt.Sprintf("(forall ((k %s)) (! (=> (select %s k) (select %s k)) :pattern ((select %s k))))", ks.SMT(), seen.S, domAtEntry, seen.S))
		c.assumeInvariant(st, invs, extra)
		exitSt := st.clone()
		exitSt.assume(fmt.Sprintf("(forall ((k %s)) (! (=> (select %s k) (select %s k)) :pattern ((select %s k))))", ks.SMT(), domAtEntry, seen.S, domAtEntry))
		// seen ⊆ dom and dom ⊆ seen: the two sets are equal (stated as an equation so that functions of
		// the set, e.g. its cardinality, agree without an extensionality argument)
		exitSt.assume(sEq(seen.S, domAtEntry))
		outs := []Outcome{{st: exitSt, kind: oNext}}
		k := c.fresh(st, "rangekey", u.Key())
		st.assume(sSel(domAtEntry, k.S))
		st.assume(sNot(sSel(seen.S, k.S)))
		// Go semantics: an entry deleted during iteration is not produced
		domNow, valNow, _, _ := c.mapArrs(st, u)
		st.assume(sSel(sSel(domNow.S, m.S), k.S))
		if keyObj != nil {
			st.vars[keyObj] = Term{S: k.S, Sort: ks, T: keyObj.Type()}
		}
		if valObj != nil {
			v := Term{S: sSel(sSel(valNow.S, m.S), k.S), Sort: valNow.Sort.Elem.Elem, T: valObj.Type()}
			c.readFacts(st, v)
			st.vars[valObj] = v
		}
		c.e.trusted["range over map modelled as iteration over the entry-time domain (body may delete, must not insert into the ranged map)"] = true
		for _, o := range c.execBlock(st, x.Body.List) {
			switch {
			case o.kind == oBreak && (o.label == "" || o.label == label):
				outs = append(outs, Outcome{st: o.st, kind: oNext})
			case (o.kind == oNext) || (o.kind == oContinue && (o.label == "" || o.label == label)):
				next := Term{S: sSto(seen.S, k.S, "true"), Sort: setSort}
				c.checkInvariant(o.st, invs, ord, "preserved", x.Pos(), map[string]Term{seenName: next, domName: dom0T})
				c.loopFrame(o.st, "preserved", ord, x.Pos())
			default:
				outs = append(outs, o)
			}
		}
		return outs
	case *types.Chan:
		// for v := range ch: each iteration receives a havoc value; exit when closed
		c.checkInvariant(st, invs, ord, "entry", x.Pos(), nil)
		c.havocLoop(st, x.Body)
		c.assumeInvariant(st, invs, nil)
		exitSt := st.clone()
		outs := []Outcome{{st: exitSt, kind: oNext}}
		rs := c.recv(st, x.X, x.Pos())
		if keyObj != nil {
			st.vars[keyObj] = rs[0]
		}
		for _, o := range c.execBlock(st, x.Body.List) {
			switch {
			case o.kind == oBreak && (o.label == "" || o.label == label):
				outs = append(outs, Outcome{st: o.st, kind: oNext})
			case (o.kind == oNext) || (o.kind == oContinue && (o.label == "" || o.label == label)):
				c.checkInvariant(o.st, invs, ord, "preserved", x.Pos(), nil)
			default:
				outs = append(outs, o)
			}
		}
		return outs
	}
	panic(unsup("range over %v", xt))
}

func isBlank(e ast.Expr) bool {
	id, ok := e.(*ast.Ident)
	return ok && id.Name == "_"
}

// collectMods over-approximates what a loop body may modify.
func (c *FnCtx) collectMods(n ast.Node, ms *modSet, info *types.Info, depth int) {
	d := c.e.d
	var lhs func(e ast.Expr)
	lhs = func(e ast.Expr) {
		e = ast.Unparen(e)
		switch y := e.(type) {
		case *ast.Ident:
			if o := info.ObjectOf(y); o != nil {
				if v, ok := o.(*types.Var); ok && v.Pkg() != nil && v.Parent() == v.Pkg().Scope() {
					ms.heap["PV:"+v.Pkg().Path()+"."+v.Name()] = d.sortOf(v.Type())
				} else {
					ms.vars[o] = true
				}
			}
		case *ast.SelectorExpr:
			if sel, ok := info.Selections[y]; ok && sel.Kind() == types.FieldVal {
				// find the struct owning the last field
				t := sel.Recv()
				idx := sel.Index()
				var lastPtrN *types.Named // the last field reached through a pointer: a write below it (through nested
				var lastPtrF *types.Var   // struct VALUES) modifies that field's heap array
				for i, ix := range idx {
					nn, stt, isPtr := derefNamedStruct(t)
					if nn == nil {
						break
					}
					f := stt.Field(ix)
					if isPtr && c.e.isInlineObj(nn, f) {
						if i == len(idx)-1 {
							c.allFieldMods(f.Type(), ms)
						}
						t = types.NewPointer(f.Type())
						continue
					}
					if isPtr {
						lastPtrN, lastPtrF = nn, f
					}
					if i == len(idx)-1 {
						if !isPtr && lastPtrN != nil {
							ms.heap[fieldKey(lastPtrN, lastPtrF.Name())] = arraySort(sV, d.sortOf(lastPtrF.Type()))
						} else if isPtr {
							ms.heap[fieldKey(nn, f.Name())] = arraySort(sV, d.sortOf(f.Type()))
							k := nn.Obj().Pkg().Path() + "." + nn.Obj().Name() + "." + f.Name()
							for _, ow := range c.e.onwrites[k] {
								for _, up := range ow.Updates {
									if g := c.e.ghostVar(up.Target); g != nil {
										ms.heap["G:"+up.Target] = g.Sort
									}
								}
							}
						} else {
							lhs(y.X)
						}
					}
					t = f.Type()
				}
			}
		case *ast.IndexExpr:
			bt := info.TypeOf(y.X)
			if bt == nil {
				return
			}
			switch u := bt.Underlying().(type) {
			case *types.Map:
				ks, vs := d.sortOf(u.Key()), d.sortOf(u.Elem())
				ms.heap["MD:"+mapTypeName(u)] = arraySort(sV, arraySort(ks, sBool))
				ms.heap["MV:"+mapTypeName(u)] = arraySort(sV, arraySort(ks, vs))
			case *types.Slice:
				lhs(y.X)
			}
		case *ast.StarExpr:
			t := info.TypeOf(y.X)
			if nn, stt, isPtr := derefNamedStruct(t); nn != nil && isPtr {
				for i := 0; i < stt.NumFields(); i++ {
					ms.heap[fieldKey(nn, stt.Field(i).Name())] = arraySort(sV, d.sortOf(stt.Field(i).Type()))
				}
			} else if pt, ok := t.Underlying().(*types.Pointer); ok {
				ms.heap["P:"+typeShortName(pt.Elem())] = arraySort(sV, d.sortOf(pt.Elem()))
			}
		}
	}
	ast.Inspect(n, func(nd ast.Node) bool {
		switch y := nd.(type) {
		case *ast.FuncLit:
			return false
		case *ast.AssignStmt:
			for _, l := range y.Lhs {
				lhs(l)
			}
		case *ast.IncDecStmt:
			lhs(y.X)
		case *ast.RangeStmt:
			if y.Key != nil {
				lhs(y.Key)
			}
			if y.Value != nil {
				lhs(y.Value)
			}
		case *ast.UnaryExpr:
			if y.Op == token.AND {
				if id, ok := ast.Unparen(y.X).(*ast.Ident); ok {
					if v, ok := info.ObjectOf(id).(*types.Var); ok && !v.IsField() {
						if nn, _, isPtr := derefNamedStruct(v.Type()); nn == nil || isPtr || !d.modelled(nn) {
							ms.alloc = true
							ms.heap["P:"+typeShortName(v.Type())] = arraySort(sV, d.sortOf(v.Type()))
						}
					}
				}
				if _, ok := ast.Unparen(y.X).(*ast.CompositeLit); ok {
					ms.alloc = true
					// fields initialised by the literal
					if nn, stt, _ := derefNamedStruct(info.TypeOf(y.X)); nn != nil && d.modelled(nn) {
						for i := 0; i < stt.NumFields(); i++ {
							ms.heap[fieldKey(nn, stt.Field(i).Name())] = arraySort(sV, d.sortOf(stt.Field(i).Type()))
						}
					}
				}
			}
			if y.Op == token.ARROW {
				c.chanMods(info.TypeOf(y.X), "recv", ms)
			}
		case *ast.SendStmt:
			c.chanMods(info.TypeOf(y.Chan), "send", ms)
		case *ast.CompositeLit:
			if u, ok := info.TypeOf(y).Underlying().(*types.Map); ok {
				ms.alloc = true
				ks, vs := d.sortOf(u.Key()), d.sortOf(u.Elem())
				ms.heap["MD:"+mapTypeName(u)] = arraySort(sV, arraySort(ks, sBool))
				ms.heap["MV:"+mapTypeName(u)] = arraySort(sV, arraySort(ks, vs))
			}
		case *ast.CallExpr:
			if tv, ok := info.Types[y.Fun]; ok && tv.IsType() {
				return true
			}
			if id, ok := ast.Unparen(y.Fun).(*ast.Ident); ok {
				if _, ok := info.Uses[id].(*types.Builtin); ok {
					switch id.Name {
					case "delete":
						if u, ok := info.TypeOf(y.Args[0]).Underlying().(*types.Map); ok {
							ks, vs := d.sortOf(u.Key()), d.sortOf(u.Elem())
							ms.heap["MD:"+mapTypeName(u)] = arraySort(sV, arraySort(ks, sBool))
							ms.heap["MV:"+mapTypeName(u)] = arraySort(sV, arraySort(ks, vs))
						}
					case "make", "new":
						ms.alloc = true
						if u, ok := info.TypeOf(y).Underlying().(*types.Map); ok {
							ks, vs := d.sortOf(u.Key()), d.sortOf(u.Elem())
							ms.heap["MD:"+mapTypeName(u)] = arraySort(sV, arraySort(ks, sBool))
							ms.heap["MV:"+mapTypeName(u)] = arraySort(sV, arraySort(ks, vs))
						}
						if id.Name == "new" {
							if nn, stt, _ := derefNamedStruct(info.TypeOf(y.Args[0])); nn != nil && d.modelled(nn) {
								for i := 0; i < stt.NumFields(); i++ {
									ms.heap[fieldKey(nn, stt.Field(i).Name())] = arraySort(sV, d.sortOf(stt.Field(i).Type()))
								}
							}
						}
						if ch, ok := info.TypeOf(y).Underlying().(*types.Chan); ok {
							c.chanMods(ch, "make", ms)
						}
					case "close":
						c.chanMods(info.TypeOf(y.Args[0]), "close", ms)
					}
					return true
				}
			}
			sub := &FnCtx{e: c.e, fi: c.fi, info: info}
			key, fnObj := sub.calleeKey(y)
			if key == "" {
				key = sub.funcValKeyInfo(y, info, c.baseKey())
			}
			if fnObj != nil {
				c.e.sigByKey[key] = fnObj.Type().(*types.Signature)
			}
			if dr, _ := isDroppedCallee(key); dr {
				return true
			}
			fc := c.e.contracts[key]
			if fc == nil {
				return true // reported as missing contract when executed
			}
			if fc.Inline {
				if fi := c.e.funcs[key]; fi != nil && depth < 6 {
					c.collectMods(fi.Body, ms, fi.Pkg.TypesInfo, depth+1)
				}
				return true
			}
			c.contractMods(fc, key, ms)
		}
		return true
	})
}

func (c *FnCtx) funcValKeyInfo(call *ast.CallExpr, info *types.Info, base string) string {
	fun := ast.Unparen(call.Fun)
	switch f := fun.(type) {
	case *ast.Ident:
		if v, ok := info.Uses[f].(*types.Var); ok {
			return base + "$" + v.Name()
		}
	case *ast.SelectorExpr:
		if sel, ok := info.Selections[f]; ok && sel.Kind() == types.FieldVal {
			if n, _, _ := derefNamedStruct(sel.Recv()); n != nil {
				return n.Obj().Pkg().Path() + "." + n.Obj().Name() + "$" + f.Sel.Name
			}
		}
	}
	return ""
}

func (c *FnCtx) chanMods(t types.Type, kind string, ms *modSet) {
	el := chanElem(t)
	if el == nil {
		return
	}
	for _, os := range c.matchOnSend(el, kind) {
		for _, up := range os.Updates {
			if g := c.e.ghostVar(up.Target); g != nil {
				ms.heap["G:"+up.Target] = g.Sort
			}
		}
	}
}

// contractMods converts a callee's modifies clause to whole-array heap keys.
func (c *FnCtx) contractMods(fc *FuncContract, key string, ms *modSet) {
	d := c.e.d
	// package of the callee for type-name resolution
	pkgPath := key
	if i := strings.LastIndex(key, "$"); i >= 0 {
		pkgPath = key[:i]
	}
	var pkgT *types.Package
	for pkgPath != "" {
		if p, ok := c.e.pkgs[pkgPath]; ok && p.Types != nil {
			pkgT = p.Types
			break
		}
		i := strings.LastIndex(pkgPath, ".")
		if i < 0 {
			break
		}
		pkgPath = pkgPath[:i]
	}
	if fc.DefPkg != "" {
		if p, ok := c.e.pkgs[fc.DefPkg]; ok && p.Types != nil {
			pkgT = p.Types
		}
	}
	for _, m := range fc.Modifies {
		if m == "alloc" {
			ms.alloc = true
			continue
		}
		if g := c.e.ghostVar(m); g != nil {
			ms.heap["G:"+m] = g.Sort
			continue
		}
		if strings.HasPrefix(m, "allmaps(") && strings.HasSuffix(m, ")") {
			inner := strings.TrimSuffix(strings.TrimPrefix(m, "allmaps("), ")")
			if strings.HasPrefix(inner, "\"") {
				if t := c.e.resolveGoType(strings.Trim(inner, "\""), c.e.pkgs[fc.DefPkg], token.NoPos); t != nil {
					if mt, ok := t.Underlying().(*types.Map); ok {
						ks, vs := d.sortOf(mt.Key()), d.sortOf(mt.Elem())
						ms.heap["MD:"+mapTypeName(mt)] = arraySort(sV, arraySort(ks, sBool))
						ms.heap["MV:"+mapTypeName(mt)] = arraySort(sV, arraySort(ks, vs))
						continue
					}
				}
			}
			if mt := c.designatorMapType(inner, fc, key, pkgT); mt != nil {
				ks, vs := d.sortOf(mt.Key()), d.sortOf(mt.Elem())
				ms.heap["MD:"+mapTypeName(mt)] = arraySort(sV, arraySort(ks, sBool))
				ms.heap["MV:"+mapTypeName(mt)] = arraySort(sV, arraySort(ks, vs))
				continue
			}
			panic(toolErr("cannot resolve %q of %s for loop havoc", m, key))
		}
		if strings.HasSuffix(m, "[*]") {
			// any map of the type of that expression: resolve the field type syntactically (x.f[*] or T.f[*])
			base := strings.TrimSuffix(m, "[*]")
			if mt := c.designatorMapType(base, fc, key, pkgT); mt != nil {
				ks, vs := d.sortOf(mt.Key()), d.sortOf(mt.Elem())
				ms.heap["MD:"+mapTypeName(mt)] = arraySort(sV, arraySort(ks, sBool))
				ms.heap["MV:"+mapTypeName(mt)] = arraySort(sV, arraySort(ks, vs))
				continue
			}
			panic(toolErr("cannot resolve map designator %q of %s for loop havoc", m, key))
		}
		// Type.field or expr.field -> whole field
		i := strings.LastIndex(m, ".")
		if i < 0 {
			panic(toolErr("bad modifies designator %q of %s", m, key))
		}
		fieldName := m[i+1:]
		n := c.designatorStruct(m[:i], fc, key, pkgT)
		if n == nil {
			panic(toolErr("cannot resolve designator %q of %s for loop havoc", m, key))
		}
		stt := n.Underlying().(*types.Struct)
		found := false
		for j := 0; j < stt.NumFields(); j++ {
			if stt.Field(j).Name() == fieldName {
				ms.heap[fieldKey(n, fieldName)] = arraySort(sV, d.sortOf(stt.Field(j).Type()))
				found = true
			}
		}
		if !found {
			panic(toolErr("designator %q of %s: no field", m, key))
		}
	}
}

// designatorStruct resolves the struct type of the base of a designator: a type name, or a
// parameter/receiver path like a.b of the callee.
func (c *FnCtx) designatorStruct(base string, fc *FuncContract, key string, pkgT *types.Package) *types.Named {
	// strip index expressions: x.m[k].f -> the element type of m is what matters
	idxCount := map[int]int{}
	{
		var sb strings.Builder
		depth, seg := 0, 0
		for _, ch := range base {
			switch {
			case ch == '[':
				if depth == 0 {
					idxCount[seg]++
				}
				depth++
			case ch == ']':
				depth--
			case depth > 0:
			case ch == '.':
				seg++
				sb.WriteRune(ch)
			default:
				sb.WriteRune(ch)
			}
		}
		base = sb.String()
	}
	elemOf := func(t types.Type, n int) types.Type {
		for ; n > 0 && t != nil; n-- {
			switch u := t.Underlying().(type) {
			case *types.Map:
				t = u.Elem()
			case *types.Slice:
				t = u.Elem()
			default:
				return nil
			}
		}
		return t
	}
	parts := strings.Split(base, ".")
	var t types.Type
	if pkgT != nil {
		if obj := pkgT.Scope().Lookup(parts[0]); obj != nil {
			if tn, ok := obj.(*types.TypeName); ok {
				t = tn.Type()
			}
		}
	}
	if t == nil {
		t = c.calleeVarType(parts[0], fc, key)
	}
	if t == nil {
		if n := c.e.findNamedStruct(parts[0], pkgT); n != nil {
			t = n
		}
	}
	if t == nil && len(parts) >= 2 && fc.DefPkg != "" {
		// pkgalias.Type
		func() {
			defer func() { recover() }()
			if rt := c.e.resolveGoType(parts[0]+"."+parts[1], c.e.pkgs[fc.DefPkg], token.NoPos); rt != nil {
				t = rt
				parts = parts[1:]
			}
		}()
	}
	if t == nil {
		return nil
	}
	t = elemOf(t, idxCount[0])
	for pi, p := range parts[1:] {
		n, stt, _ := derefNamedStruct(t)
		if n == nil {
			return nil
		}
		t = nil
		for j := 0; j < stt.NumFields(); j++ {
			if stt.Field(j).Name() == p {
				t = stt.Field(j).Type()
			}
		}
		if t == nil {
			return nil
		}
		t = elemOf(t, idxCount[pi+1])
		if t == nil {
			return nil
		}
	}
	n, _, _ := derefNamedStruct(t)
	return n
}

func (c *FnCtx) designatorMapType(base string, fc *FuncContract, key string, pkgT *types.Package) *types.Map {
	if strings.HasSuffix(base, "]") {
		// m[k] where m is a map of maps
		depth := 0
		for j := len(base) - 1; j >= 0; j-- {
			if base[j] == ']' {
				depth++
			}
			if base[j] == '[' {
				depth--
				if depth == 0 {
					if outer := c.designatorMapType(base[:j], fc, key, pkgT); outer != nil {
						mt, _ := outer.Elem().Underlying().(*types.Map)
						return mt
					}
					return nil
				}
			}
		}
		return nil
	}
	i := strings.LastIndex(base, ".")
	if i < 0 {
		if t := c.calleeVarType(base, fc, key); t != nil {
			mt, _ := t.Underlying().(*types.Map)
			return mt
		}
		return nil
	}
	n := c.designatorStruct(base[:i], fc, key, pkgT)
	if n == nil {
		return nil
	}
	stt := n.Underlying().(*types.Struct)
	for j := 0; j < stt.NumFields(); j++ {
		if stt.Field(j).Name() == base[i+1:] {
			mt, _ := stt.Field(j).Type().Underlying().(*types.Map)
			return mt
		}
	}
	return nil
}

func (c *FnCtx) calleeVarType(name string, fc *FuncContract, key string) types.Type {
	if fi := c.e.funcs[key]; fi != nil {
		if fi.Recv != nil && (fi.Recv.Name() == name || name == "self") {
			return fi.Recv.Type()
		}
		for i := 0; i < fi.Sig.Params().Len(); i++ {
			if fi.Sig.Params().At(i).Name() == name {
				return fi.Sig.Params().At(i).Type()
			}
		}
	}
	// functions without a body here (interface methods, dependencies): the signature seen at a call site
	if sig := c.e.sigByKey[key]; sig != nil {
		if r := sig.Recv(); r != nil && (name == "self" || (r.Name() != "" && r.Name() == name)) {
			return r.Type()
		}
		for i := 0; i < sig.Params().Len(); i++ {
			pn := sig.Params().At(i).Name()
			if i < len(fc.Params) {
				pn = fc.Params[i]
			}
			if pn == name {
				return sig.Params().At(i).Type()
			}
		}
	}
	return nil
}

// ---- switch ----

func (c *FnCtx) execSwitch(st *State, x *ast.SwitchStmt) []Outcome {
	if x.Init != nil {
		st = c.execStmt(st, x.Init)[0].st
	}
	var tag *Term
	if x.Tag != nil {
		t := c.evalExpr(st, x.Tag)
		tag = &t
	}
	label := c.labels[x]
	var outs []Outcome
	var negs []string
	var deflt *ast.CaseClause
	handle := func(os []Outcome) {
		for _, o := range os {
			if o.kind == oBreak && (o.label == "" || o.label == label) {
				outs = append(outs, Outcome{st: o.st, kind: oNext})
			} else {
				outs = append(outs, o)
			}
		}
	}
	for _, cl := range x.Body.List {
		cc := cl.(*ast.CaseClause)
		if cc.List == nil {
			deflt = cc
			continue
		}
		for _, s := range cc.Body {
			if b, ok := s.(*ast.BranchStmt); ok && b.Tok == token.FALLTHROUGH {
				panic(unsup("fallthrough"))
			}
		}
		cst := st.clone()
		for _, ng := range negs {
			cst.assume(ng)
		}
		var conds []string
		for _, e := range cc.List {
			v := c.evalExpr(cst, e)
			if tag != nil {
				tv := *tag
				if !sameSort(tv.Sort, v.Sort) {
					if tv.Sort.Kind == KV {
						v = c.coerce(cst, v, tv.T)
					} else {
						tv = c.coerce(cst, tv, v.T)
					}
				}
				conds = append(conds, sEq(tv.S, v.S))
			} else {
				conds = append(conds, v.S)
			}
		}
		cond := sOr(conds...)
		cst.assume(cond)
		negs = append(negs, sNot(cond))
		handle(c.execBlock(cst, cc.Body))
	}
	dst := st
	for _, ng := range negs {
		dst.assume(ng)
	}
	if deflt != nil {
		handle(c.execBlock(dst, deflt.Body))
	} else {
		outs = append(outs, Outcome{st: dst, kind: oNext})
	}
	return outs
}

func (c *FnCtx) execTypeSwitch(st *State, x *ast.TypeSwitchStmt) []Outcome {
	if x.Init != nil {
		st = c.execStmt(st, x.Init)[0].st
	}
	var subject ast.Expr
	var bind *ast.Ident
	switch a := x.Assign.(type) {
	case *ast.ExprStmt:
		subject = a.X.(*ast.TypeAssertExpr).X
	case *ast.AssignStmt:
		subject = a.Rhs[0].(*ast.TypeAssertExpr).X
		bind = a.Lhs[0].(*ast.Ident)
	}
	_ = bind
	v := c.evalExpr(st, subject)
	d := c.e.d
	d.declFun("dyntype", "V", "Int")
	label := c.labels[x]
	var outs []Outcome
	var negs []string
	var deflt *ast.CaseClause
	handle := func(os []Outcome) {
		for _, o := range os {
			if o.kind == oBreak && (o.label == "" || o.label == label) {
				outs = append(outs, Outcome{st: o.st, kind: oNext})
			} else {
				outs = append(outs, o)
			}
		}
	}
	for _, cl := range x.Body.List {
		cc := cl.(*ast.CaseClause)
		if cc.List == nil {
			deflt = cc
			continue
		}
		cst := st.clone()
		for _, ng := range negs {
			cst.assume(ng)
		}
		var conds []string
		for _, te := range cc.List {
			if id, ok := te.(*ast.Ident); ok && id.Name == "nil" {
				conds = append(conds, sEq(v.S, "nilV"))
				continue
			}
			t := c.typeOf(te)
			if _, isIface := t.Underlying().(*types.Interface); isIface {
				conds = append(conds, sAnd(c.implementsTerm(v, t), sNot(sEq(v.S, "nilV"))))
			} else {
				conds = append(conds, sAnd(sNot(sEq(v.S, "nilV")), sEq(sApp("dyntype", v.S), fmt.Sprint(d.typeTag(t)))))
			}
		}
		cond := sOr(conds...)
		cst.assume(cond)
		negs = append(negs, sNot(cond))
		if obj := c.info.Implicits[cc]; obj != nil {
			if len(cc.List) == 1 {
				cst.vars[obj] = c.unbox(v, obj.Type())
			} else {
				cst.vars[obj] = v
			}
		}
		handle(c.execBlock(cst, cc.Body))
	}
	dst := st
	for _, ng := range negs {
		dst.assume(ng)
	}
	if deflt != nil {
		if obj := c.info.Implicits[deflt]; obj != nil {
			dst.vars[obj] = v
		}
		handle(c.execBlock(dst, deflt.Body))
	} else {
		outs = append(outs, Outcome{st: dst, kind: oNext})
	}
	return outs
}

// ---- defer / go / select ----

func (c *FnCtx) isDroppedDefer(call *ast.CallExpr) bool {
	key, _ := c.calleeKey(call)
	if key == "" {
		return false
	}
	dr, _ := isDroppedCallee(key)
	return dr
}

func (c *FnCtx) execDefer(st *State, x *ast.DeferStmt) []Outcome {
	if c.isDroppedDefer(x.Call) {
		return one(st)
	}
	df := deferred{call: x.Call}
	if _, isLit := ast.Unparen(x.Call.Fun).(*ast.FuncLit); !isLit {
		// arguments are evaluated now
		for _, a := range x.Call.Args {
			df.args = append(df.args, c.evalExpr(st, a))
		}
	}
	st.defers = append(st.defers, df)
	return one(st)
}

// runDefers executes deferred calls (LIFO) on a returning state.
func (c *FnCtx) runDefers(o Outcome) []Outcome {
	cur := []Outcome{o}
	for len(o.st.defers) > 0 {
		break
	}
	defs := append([]deferred(nil), o.st.defers...)
	n := len(defs)
	for i := n - 1; i >= 0; i-- {
		df := defs[i]
		var next []Outcome
		for _, oc := range cur {
			st := oc.st
			st.defers = nil
			if lit, ok := ast.Unparen(df.call.Fun).(*ast.FuncLit); ok {
				// closure body executed in place; it sees named results through st.vars
				sub := *c
				sub.labels = map[ast.Stmt]string{}
				sub.prefix = c.prefix + "defer/"
				key := c.e.litKey[lit]
				if fi := c.e.funcs[key]; fi != nil {
					sub.fc = c.e.contracts[key]
					if sub.fc == nil {
						sub.fc = c.fc
					}
				}
				outs := sub.execBlock(st, lit.Body.List)
				for _, d2 := range outs {
					if d2.st.dead {
						continue
					}
					res := oc.res
					// named results may have been changed by the closure
					sig := c.fi.Sig
					if sig.Results().Len() == len(res) {
						res = append([]Term(nil), res...)
						for j := 0; j < sig.Results().Len(); j++ {
							if rv := sig.Results().At(j); rv.Name() != "" && rv.Name() != "_" {
								if t, ok := d2.st.vars[rv]; ok {
									res[j] = t
								}
							}
						}
					}
					next = append(next, Outcome{st: d2.st, kind: oReturn, res: res, ret: oc.ret})
				}
			} else {
				// plain deferred call with pre-evaluated args: re-evaluate as a call now.
				// (argument values at defer time are approximated by evaluation at return time
				// only when the arguments are pure identifiers that were not reassigned)
				c.evalCall(st, df.call)
				next = append(next, Outcome{st: st, kind: oReturn, res: oc.res, ret: oc.ret})
			}
		}
		cur = next
	}
	return cur
}

func (c *FnCtx) execGo(st *State, x *ast.GoStmt) []Outcome {
	// a spawned goroutine is not executed here; it is counted as a ghost event when a ghost
	// counter named "spawned" exists, and its arguments are evaluated.
	for _, a := range x.Call.Args {
		c.evalExpr(st, a)
	}
	if g := c.e.ghostVar("spawned"); g != nil {
		cur := c.heapGet(st, "G:spawned", g.Sort)
		c.heapSet(st, "G:spawned", Term{S: "(+ " + cur.S + " 1)", Sort: g.Sort})
	}
	c.e.trusted["goroutine started in "+c.fi.Key+" is verified separately (sequential reasoning per function)"] = true
	return one(st)
}

func (c *FnCtx) execSelect(st *State, x *ast.SelectStmt) []Outcome {
	label := c.labels[x]
	var outs []Outcome
	for _, cl := range x.Body.List {
		cc := cl.(*ast.CommClause)
		cst := st.clone()
		if cc.Comm != nil {
			switch cm := cc.Comm.(type) {
			case *ast.SendStmt:
				c.execStmt(cst, cm)
			case *ast.ExprStmt:
				c.evalExpr(cst, cm.X)
			case *ast.AssignStmt:
				c.execAssign(cst, cm)
			}
		} else {
			// default case: taken only when no other case can proceed. For every receive case of this select a
			// "default" channel event is raised, so a package that tracks what is available on a channel
			// (`onsend default:ELEM(ch, v): assume ...`) can say that nothing was
			for _, other := range x.Body.List {
				oc := other.(*ast.CommClause)
				var rx ast.Expr
				switch cm := oc.Comm.(type) {
				case *ast.SendStmt:
					// ... and for every send case a "sendfull" event: the send could not proceed, so the channel's
					// buffer is full (`onsend sendfull:ELEM(ch, v): assume ...`)
					if el := chanElem(c.typeOf(cm.Chan)); el != nil && !containsEffectfulCall(c, cm.Chan) && len(c.matchOnSend(el, "sendfull")) > 0 {
						c.chanEvent(cst, "sendfull", c.evalExpr(cst, cm.Chan), Term{}, cc.Pos())
					}
				case *ast.ExprStmt:
					rx = cm.X
				case *ast.AssignStmt:
					if len(cm.Rhs) == 1 {
						rx = cm.Rhs[0]
					}
				}
				if u, ok := ast.Unparen(rx).(*ast.UnaryExpr); rx != nil && ok && u.Op == token.ARROW && !containsEffectfulCall(c, u.X) {
					if len(c.matchOnSend(chanElem(c.typeOf(u.X)), "default")) > 0 {
						c.chanEvent(cst, "default", c.evalExpr(cst, u.X), Term{}, cc.Pos())
					}
				}
			}
		}
		for _, o := range c.execBlock(cst, cc.Body) {
			if o.kind == oBreak && (o.label == "" || o.label == label) {
				outs = append(outs, Outcome{st: o.st, kind: oNext})
			} else {
				outs = append(outs, o)
			}
		}
	}
	c.e.trusted["select modelled as non-deterministic choice among its cases in "+c.fi.Key] = true
	return outs
}

// useHints instantiates the function's `use` lemma hints in the given state.
func (c *FnCtx) useHints(st *State) []string {
	if c.fc == nil || len(c.fc.Uses) == 0 {
		return nil
	}
	var out []string
	for _, u := range c.fc.Uses {
		lm := c.e.lemmas[u.Name]
		if lm == nil {
			panic(toolErr("use of unknown lemmadef %s in %s", u.Name, c.fi.Key))
		}
		func() {
			defer func() {
				if r := recover(); r != nil {
					if te, ok := r.(toolError); ok {
						if os.Getenv("GSV_DEBUG_USE") != "" {
							fmt.Fprintf(os.Stderr, "use %s skipped: %s\n", u.Name, string(te))
						}
						return // hint mentions a name not in scope at this point: skip
					}
					panic(r)
				}
			}()
			sc := c.specCtx(st)
			env := map[string]Term{}
			for i, p := range lm.Params {
				if i < len(u.Args) {
					a := sc.eval(u.Args[i])
					if p.Type != "" {
						// the declared parameter type gives the argument its Go type (field access in the body)
						gt := c.e.parseGhostType(p.Type, c.e.axPkg[lm], token.NoPos)
						if gt.Kind == "go" && sameSort(c.e.ghostSort(gt), a.Sort) {
							a.T = gt.Go
						}
					}
					env[p.Name] = a
				}
			}
			lsc := &SpecCtx{c: c, pkg: c.e.axPkg[lm], env: env, st: st, old: c.entry}
			out = append(out, lsc.eval(lm.Body).S)
			c.e.trusted["lemma (assumed): "+lm.Name+": "+strings.TrimSpace(lm.Src)] = true
		}()
	}
	return out
}
