#!/opt/veriftools/pyvenv/bin/python
# validate MANIFEST.json and every evidence file against the given schemas
import json, sys, glob, jsonschema
ok = True
ms = json.load(open('/root/.vp/MANIFEST.schema.json')); es = json.load(open('/root/.vp/EVIDENCE.schema.json'))
try:
    m = json.load(open('/verif/MANIFEST.json')); jsonschema.validate(m, ms); print('MANIFEST valid,', len(m['checks']), 'checks,', len(m.get('not_applicable', [])), 'n/a')
except Exception as ex:
    ok = False; print('MANIFEST INVALID', str(ex)[:500])
for f in sorted(glob.glob('/verif/evidence/*.json')):
    try:
        e = json.load(open(f)); jsonschema.validate(e, es)
        c = e['coverage']
        if e['level'] == 'proof' and c.get('obligations') != c.get('discharged'):
            ok = False; print(f, 'INVALID for level proof: discharged', c.get('discharged'), '!= obligations', c.get('obligations'))
        print(f.split('/')[-1], 'valid', e['level'], c.get('obligations'), c.get('discharged'), e['wall_s'])
    except Exception as ex:
        ok = False; print(f, 'INVALID', str(ex)[:500])
sys.exit(0 if ok else 1)
