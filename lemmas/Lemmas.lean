/-
Lemma library of /verif/contracts/deps/lemmas.gsc, proved for FINITE sets.

The SMT encoding states these facts as axioms about uninterpreted functions Sum / Occ / Tot / SeqSum /
SeqSum2 over array-represented sets (an array-set may be infinite; the sets the contracts apply them to
are sets of allocated objects or of map keys, i.e. finite). Here each axiom and each `lemmadef` is a theorem
about the intended definitions: finite sums over `Finset`, `List.count`, sums over an initial segment.
`R` is the sort of references, `Int` the (mathematical) integers of the encoding.
-/
import Mathlib

set_option linter.unusedSectionVars false
set_option linter.unusedSimpArgs false

variable {R : Type} [DecidableEq R]

/-- Sum(L, f) -/
def GSum (L : Finset R) (f : R → Int) : Int := ∑ s ∈ L, f s

theorem sum_upd (L : Finset R) (f : R → Int) (s : R) (v : Int) :
    GSum L (Function.update f s v) = GSum L f + (if s ∈ L then v - f s else 0) := by
  unfold GSum
  by_cases h : s ∈ L
  · simp only [h, if_true]
    rw [← Finset.add_sum_erase L _ h, ← Finset.add_sum_erase L f h]
    have : ∑ x ∈ L.erase s, Function.update f s v x = ∑ x ∈ L.erase s, f x := by
      apply Finset.sum_congr rfl
      intro x hx
      have : x ≠ s := (Finset.mem_erase.mp hx).1
      simp [Function.update_of_ne this]
    rw [this]; simp; ring
  · simp only [h, if_false, add_zero]
    apply Finset.sum_congr rfl
    intro x hx
    have : x ≠ s := fun e => h (e ▸ hx)
    simp [Function.update_of_ne this]

theorem sum_add (L : Finset R) (f : R → Int) (s : R) :
    GSum (insert s L) f = GSum L f + (if s ∈ L then 0 else f s) := by
  unfold GSum
  by_cases h : s ∈ L
  · simp [h, Finset.insert_eq_of_mem h]
  · simp [h, Finset.sum_insert h, add_comm]

theorem sum_del (L : Finset R) (f : R → Int) (s : R) :
    GSum (L.erase s) f = GSum L f - (if s ∈ L then f s else 0) := by
  unfold GSum
  by_cases h : s ∈ L
  · simp only [h, if_true]
    rw [← Finset.add_sum_erase L f h]; ring
  · simp [h, Finset.erase_eq_of_notMem h]

theorem sum_empty (f : R → Int) : GSum (∅ : Finset R) f = 0 := by simp [GSum]

theorem sum_member_le (L : Finset R) (f : R → Int) (s : R)
    (hs : s ∈ L) (hpos : ∀ q ∈ L, 0 ≤ f q) : f s ≤ GSum L f := by
  unfold GSum
  exact Finset.single_le_sum (f := f) (fun q hq => hpos q hq) hs

theorem sum_none (L : Finset R) (f : R → Int) (h : ∀ q, q ∉ L) : GSum L f = 0 := by
  have : L = ∅ := Finset.eq_empty_of_forall_notMem h
  simp [GSum, this]

theorem sum_frame (L : Finset R) (f g : R → Int) (h : ∀ q ∈ L, f q = g q) : GSum L f = GSum L g := by
  unfold GSum; exact Finset.sum_congr rfl h

/-- Occ(s, l) -/
def Occ (s : List R) (l : R) : Int := (s.count l : Int)

theorem occ_nonneg (s : List R) (l : R) : 0 ≤ Occ s l := by simp [Occ]
theorem occ_empty (s : List R) (l : R) (h : s.length = 0) : Occ s l = 0 := by
  have : s = [] := List.length_eq_zero_iff.mp h
  simp [Occ, this]
theorem occ_append (s : List R) (x l : R) : Occ (s ++ [x]) l = Occ s l + (if x = l then 1 else 0) := by
  unfold Occ
  rw [List.count_append]
  by_cases h : x = l
  · simp [h]
  · have : ([x].count l) = 0 := by simp [List.count_cons, h]
    simp [h, this]
theorem occ_unfold (x : R) (s : List R) (l : R) :
    Occ (x :: s) l = (if x = l then 1 else 0) + Occ s l := by
  unfold Occ
  by_cases h : x = l
  · simp [h, List.count_cons]; ring
  · simp [h, List.count_cons]

/-- Tot(D, vals, l) -/
def Tot (D : Finset R) (vals : R → List R) (l : R) : Int := GSum D (fun r => Occ (vals r) l)

theorem tot_add (D : Finset R) (vals : R → List R) (r l : R) :
    Tot (insert r D) vals l = Tot D vals l + (if r ∈ D then 0 else Occ (vals r) l) := by
  unfold Tot; exact sum_add D _ r
theorem tot_del (D : Finset R) (vals : R → List R) (r l : R) :
    Tot (D.erase r) vals l = Tot D vals l - (if r ∈ D then Occ (vals r) l else 0) := by
  unfold Tot; exact sum_del D _ r
theorem tot_upd (D : Finset R) (vals : R → List R) (r : R) (s : List R) (l : R) :
    Tot D (Function.update vals r s) l = Tot D vals l + (if r ∈ D then Occ s l - Occ (vals r) l else 0) := by
  unfold Tot
  have : (fun q => Occ (Function.update vals r s q) l) = Function.update (fun q => Occ (vals q) l) r (Occ s l) := by
    funext q
    by_cases h : q = r
    · subst h; simp
    · simp [Function.update_of_ne h]
  rw [this]; exact sum_upd D _ r _
theorem tot_empty (vals : R → List R) (l : R) : Tot (∅ : Finset R) vals l = 0 := by simp [Tot, sum_empty]
theorem tot_member (D : Finset R) (vals : R → List R) (l r : R) (h : r ∈ D) : Occ (vals r) l ≤ Tot D vals l := by
  unfold Tot
  exact sum_member_le D _ r h (fun q _ => occ_nonneg _ _)
theorem tot_none (D : Finset R) (vals : R → List R) (h : ∀ r, r ∉ D) (l : R) : Tot D vals l = 0 := by
  unfold Tot; exact sum_none D _ h

/-- SeqSum(s, n, f): sequences of the encoding are total maps from positions to references -/
def SeqSum (s : Nat → R) (n : Nat) (f : R → Int) : Int := ∑ i ∈ Finset.range n, f (s i)

theorem seqsum_zero (s : Nat → R) (f : R → Int) : SeqSum s 0 f = 0 := by simp [SeqSum]
theorem seqsum_step (s : Nat → R) (n : Nat) (f : R → Int) : SeqSum s (n + 1) f = SeqSum s n f + f (s n) := by
  simp [SeqSum, Finset.sum_range_succ]
theorem seqsum_frame (s : Nat → R) (n : Nat) (f g : R → Int) (h : ∀ i, i < n → f (s i) = g (s i)) :
    SeqSum s n f = SeqSum s n g := by
  unfold SeqSum; exact Finset.sum_congr rfl (fun i hi => h i (Finset.mem_range.mp hi))
theorem seqsum_nonneg (s : Nat → R) (n : Nat) (f : R → Int) (h : ∀ i, i < n → 0 ≤ f (s i)) : 0 ≤ SeqSum s n f := by
  unfold SeqSum; exact Finset.sum_nonneg (fun i hi => h i (Finset.mem_range.mp hi))

/-- SeqSum2(s, n, g, f) -/
def SeqSum2 (s : Nat → R) (n : Nat) (g : R → R) (f : R → Int) : Int := ∑ i ∈ Finset.range n, f (g (s i))

theorem seqsum2_zero (s : Nat → R) (g : R → R) (f : R → Int) : SeqSum2 s 0 g f = 0 := by simp [SeqSum2]
theorem seqsum2_store (s : Nat → R) (n : Nat) (g : R → R) (f : R → Int) (x : R) (v : Int)
    (h : ∀ i, i < n → g (s i) ≠ x) : SeqSum2 s n g (Function.update f x v) = SeqSum2 s n g f := by
  unfold SeqSum2
  apply Finset.sum_congr rfl
  intro i hi
  simp [Function.update_of_ne (h i (Finset.mem_range.mp hi))]
theorem seqsum2_step (s : Nat → R) (n : Nat) (g : R → R) (f : R → Int) :
    SeqSum2 s (n + 1) g f = SeqSum2 s n g f + f (g (s n)) := by
  simp [SeqSum2, Finset.sum_range_succ]
